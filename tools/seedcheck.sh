#!/bin/bash
# tools/seedcheck.sh <seed dir containing patch.diff demo.py meta.json> <PROP> [more PROPs...]
# Confirms a seeded change on a scratch copy of /repo (never in /repo itself): patch applies, demo fails with it and
# passes without it, and runs the given checks (quick tier) against the changed tree. Optional FULLSUITE=1 runs the repo's tests.
set -u
SD=$(realpath "$1"); shift
SCR=$(mktemp -d /var/tmp/vf-seed-XXXXXX)
trap 'rm -rf "$SCR"' EXIT
mkdir -p "$SCR/tree" && cp -r /repo/gearpy /repo/tests /repo/pyproject.toml /repo/tox.ini "$SCR/tree/" 2>/dev/null
find "$SCR/tree" -name __pycache__ -type d -exec rm -rf {} + 2>/dev/null
( cd "$SCR/tree" && git init -q . && git apply --whitespace=nowarn "$SD/patch.diff" ) || { echo "RESULT apply=FAILED"; exit 3; }
export PYTHONDONTWRITEBYTECODE=1
( cd "$SCR" && PYTHONPATH="$SCR/tree" timeout 300 /venv/bin/python -B "$SD/demo.py" > "$SCR/demo_changed.out" 2>&1 ); DC=$?
( cd "$SCR" && PYTHONPATH=/repo timeout 300 /venv/bin/python -B "$SD/demo.py" > "$SCR/demo_clean.out" 2>&1 ); DU=$?
echo "RESULT demo_changed_exit=$DC demo_unchanged_exit=$DU"
tail -3 "$SCR/demo_changed.out" | cut -c1-300
for P in "$@"; do
  OUTP=$(VERIF_REPO="$SCR/tree" VERIF_OUT="$SCR/out" /verif/check "$P" --tier "${TIER:-quick}" 2>&1); RC=$?
  echo "RESULT check=$P exit=$RC $(echo "$OUTP" | grep -m1 '  monitor=' | cut -c1-260)"
done
if [ "${FULLSUITE:-0}" = 1 ]; then
  ( cd "$SCR/tree" && PYTHONPATH="$SCR/tree" /venv/bin/python -m pytest -q -p no:cacheprovider -n "${NPROC:-8}" --timeout=900 tests > "$SCR/suite.log" 2>&1 ); SRC=$?
  echo "RESULT suite_exit=$SRC $(tail -1 "$SCR/suite.log")"
  grep -E "^(FAILED|ERROR)" "$SCR/suite.log" | head -5
fi
