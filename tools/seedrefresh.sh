#!/bin/bash
# tools/seedrefresh.sh <results dir> [tag ...]   -- re-run the quick tier of the checks named in each confirmation log against the
# seeded change (scratch copy, no demo, no suite) and replace the log's "RESULT check=" lines with today's outcome. The logs
# were written while the machinery was still being strengthened; seeded/<tag>/meta.json is produced from them by keepseeds.py.
set -u
RES=$1; shift
ROOT=$(cd "$(dirname "$0")/.." && pwd)
TAGS=("$@"); [ ${#TAGS[@]} -eq 0 ] && TAGS=($(ls "$RES" | grep -E '^C[0-9][0-9]-[a-j]?[0-9]\.txt$' | sed 's/\.txt$//'))
for T in "${TAGS[@]}"; do
  F="$RES/$T.txt"; [ -f "$F" ] || continue
  P=${T%%-*}; N=${T##*-}
  case "$N" in [a-j]*) SD=/tmp/seed${N:0:1}-$P/SEED/${N:1};; *) SD=/tmp/seed-$P/SEED/$N;; esac
  [ -f "$SD/patch.diff" ] || SD="$ROOT/seeded/$T"
  [ -f "$SD/patch.diff" ] || { echo "$T no patch"; continue; }
  CHECKS=$(grep -o "RESULT check=C[0-9]*" "$F" | sed 's/RESULT check=//' | sort -u | tr '\n' ' ')
  [ -z "$CHECKS" ] && CHECKS=$P
  SCR=$(mktemp -d /var/tmp/vf-refresh-XXXXXX)
  mkdir -p "$SCR/tree" && cp -r /repo/gearpy "$SCR/tree/"
  ( cd "$SCR/tree" && git init -q . && git apply --whitespace=nowarn "$SD/patch.diff" ) 2>/dev/null || { echo "$T apply failed"; rm -rf "$SCR"; continue; }
  NEW=""
  for C in $CHECKS; do
    OUTP=$(VERIF_REPO="$SCR/tree" VERIF_OUT="$SCR/out" "$ROOT/check" "$C" --tier quick 2>&1); RC=$?
    NEW="$NEW"$'\n'"RESULT check=$C exit=$RC $(echo "$OUTP" | grep -m1 '  monitor=' | cut -c1-260)"
  done
  grep -v "^RESULT check=" "$F" > "$SCR/new.txt"; echo "${NEW:1}" >> "$SCR/new.txt"; cp "$SCR/new.txt" "$F"
  echo "$T $(echo "${NEW:1}" | sed 's/ *monitor=.*//' | tr '\n' ' ')"
  rm -rf "$SCR"
done
