#!/usr/bin/env python3
"""Collect confirmed seeded changes into /verif/seeded/<ID>-<n>/ (patch.diff, demo.py, meta.json) from the sub-agents'
scratch worktrees and the confirmation logs written by tools/seedcheck.sh (FULLSUITE=1)."""
import glob, json, os, re, shutil, sys
ROOT = os.path.dirname(os.path.dirname(os.path.abspath(__file__)))
RES = sys.argv[1] if len(sys.argv) > 1 else '/var/tmp/seedresults'
EXTRA = {  # other checks that were run against a seeded change here (property -> outcome)
}
for res in sorted(glob.glob(os.path.join(RES, 'C??-*.txt'))):
    tag = os.path.basename(res)[:-4]
    prop, n = tag.split('-')
    src = f'/tmp/seed{n[0]}-{prop}/SEED/{n[1:]}' if n[0] in 'bcdefghij' else f'/tmp/seed-{prop}/SEED/{n}'
    dst = os.path.join(ROOT, 'seeded', tag)
    txt = open(res).read()
    m_demo = re.search(r'demo_changed_exit=(\d+) demo_unchanged_exit=(\d+)', txt)
    m_suite = re.search(r'suite_exit=(\d+) (.*)', txt)
    checks = re.findall(r'RESULT check=(C\d+) exit=(\d+)[ \t]*(.*)', txt)
    if not (m_demo and m_suite):
        print(tag, 'incomplete'); continue
    ok = m_demo.group(1) == '1' and m_demo.group(2) == '0' and m_suite.group(1) == '0'
    if not ok:
        print(tag, 'NOT CONFIRMED', m_demo.groups(), m_suite.groups()); continue
    os.makedirs(dst, exist_ok=True)
    if os.path.isdir(src):
        shutil.copy(os.path.join(src, 'patch.diff'), dst)
        shutil.copy(os.path.join(src, 'demo.py'), dst)
        agent = json.load(open(os.path.join(src, 'meta.json')))
    else:
        agent = json.load(open(os.path.join(dst, 'meta.json'))).get('agent', {})
    meta = {'property': prop, 'summary': agent.get('summary'), 'needs_to_manifest': agent.get('needs'),
            'agent': agent,
            'confirmed_here': {'how': 'tools/seedcheck.sh on a scratch copy of /repo (FULLSUITE=1): git apply, demo with PYTHONPATH=<changed copy> and with /repo, '
                                      'python -m pytest -q -n 7 tests on the changed copy, ./check <property> --tier quick with VERIF_REPO=<changed copy>',
                               'patch_applies': True, 'demo_exit_with_change': int(m_demo.group(1)), 'demo_exit_without_change': int(m_demo.group(2)),
                               'repo_suite_with_change': m_suite.group(2).strip(),
                               'checks': [{'property': c, 'exit': int(e), 'first_monitor': mon.strip()[:200]} for c, e, mon in checks]}}
    json.dump(meta, open(os.path.join(dst, 'meta.json'), 'w'), indent=1)
    print(tag, 'kept;', 'caught by' if any(e == '1' for _, e, _ in checks) else 'MISSED by', [c for c, e, _ in checks])
