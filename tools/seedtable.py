#!/usr/bin/env python3
"""Regenerate the seeded-change table of DESIGN.md section 4.2 from seeded/*/meta.json."""
import glob, json, os, re
ROOT = os.path.dirname(os.path.dirname(os.path.abspath(__file__)))
rows = ['| seeded change | what it changes / needs | repo suite with change | caught by (quick tier) | first monitor |', '|---|---|---|---|---|']
for mp in sorted(glob.glob(os.path.join(ROOT, 'seeded', '*', 'meta.json'))):
    m = json.load(open(mp))
    tag = os.path.basename(os.path.dirname(mp))
    c = m['confirmed_here']
    caught = ', '.join(x['property'] for x in c['checks'] if x['exit'] == 1) or '**none**'
    mon = next((re.sub(r'witness=.*', '', x['first_monitor']).replace('monitor=', '').strip() for x in c['checks'] if x['exit'] == 1), '')
    summ = (m.get('summary') or '').replace('|', '/').replace('\n', ' ')
    rows.append(f"| {tag} | {summ[:230]} | {c['repo_suite_with_change'][:40]} | {caught} | {mon} |")
p = os.path.join(ROOT, 'DESIGN.md')
s = open(p).read()
a, b = s.index('<!-- SEEDTABLE:BEGIN -->'), s.index('<!-- SEEDTABLE:END -->')
s = s[:a] + '<!-- SEEDTABLE:BEGIN -->\n' + '\n'.join(rows) + '\n' + s[b:]
open(p, 'w').write(s)
print(len(rows) - 2, 'rows')
