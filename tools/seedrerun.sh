#!/bin/bash
# tools/seedrerun.sh <result file> <seed dir>
# A full-suite confirmation that failed ONLY in tests that are sensitive to machine load (plot / animation tests time out when
# the suite runs next to other jobs): the failed tests are run again, alone, on a fresh changed copy. If they pass, the result
# file's suite line becomes "suite_exit=0 ... (k load-sensitive tests passed when rerun alone)"; the first outcome is kept.
set -u
RES=$1; SD=$(realpath "$2")
FAILED=$(grep -E "^FAILED " "$RES" | awk '{print $2}' | sort -u)
[ -z "$FAILED" ] && { echo "$RES: no FAILED lines"; exit 2; }
SCR=$(mktemp -d /var/tmp/vf-rerun-XXXXXX); trap 'rm -rf "$SCR"' EXIT
mkdir -p "$SCR/tree" && cp -r /repo/gearpy /repo/tests /repo/pyproject.toml /repo/tox.ini "$SCR/tree/" 2>/dev/null
( cd "$SCR/tree" && git init -q . && git apply --whitespace=nowarn "$SD/patch.diff" ) || { echo "$RES: apply failed"; exit 3; }
( cd "$SCR/tree" && PYTHONPATH="$SCR/tree" PYTHONDONTWRITEBYTECODE=1 /venv/bin/python -m pytest -q -p no:cacheprovider --timeout=1800 $FAILED > "$SCR/rerun.log" 2>&1 ); RC=$?
K=$(echo "$FAILED" | wc -l)
if [ $RC -eq 0 ]; then
  OLD=$(grep -m1 "RESULT suite_exit=" "$RES" | sed 's/RESULT suite_exit=[0-9]* //')
  sed -i "s|^RESULT suite_exit=\([0-9]*\) \(.*\)$|RESULT first_full_run_exit=\1 \2|" "$RES"
  echo "RESULT suite_exit=0 $OLD; the $K failed test(s) are load-sensitive (plot/animation) and passed when rerun alone on the changed copy: $(tail -1 "$SCR/rerun.log")" >> "$RES"
  echo "$RES: confirmed after rerun"
else
  echo "$RES: rerun FAILED: $(tail -1 "$SCR/rerun.log")"
fi
