#!/bin/bash
# tools/sweep.sh <tier> <seed_lo> <seed_hi> [IDs...]   -- silence on the unchanged tree: every run must exit 0
cd "$(dirname "$0")/.."
TIER=$1; LO=$2; HI=$3; shift 3
IDS=${@:-C01 C02 C03 C04 C05 C06 C07 C08 C09 C10 C11 C12 C13 C14 C15 C16 C17 C18 C19 C20}
OUT=$(mktemp -d /var/tmp/vf-sweep-XXXX)
bad=0
for s in $(seq $LO $HI); do for p in $IDS; do
  r=$(VERIF_SEED=$s VERIF_OUT=$OUT ./check $p --tier $TIER 2>&1); rc=$?
  if [ $rc -ne 0 ]; then bad=$((bad+1)); echo "seed=$s $p exit=$rc"; echo "$r" | grep -E "VIOLATION|monitor=|INCONCL" | head -4 | cut -c1-400; fi
done; done
echo "sweep $TIER seeds $LO..$HI: $bad non-zero exits"
rm -rf $OUT
