#!/usr/bin/env python3
"""Regenerate MANIFEST.json from the table below (claimed checks = check modules that exist and are listed here)."""
import json, os
ROOT = os.path.dirname(os.path.dirname(os.path.abspath(__file__)))
BASE = json.load(open('/root/.vp/BASELINE.json'))['cmd'].replace('<file>', '/var/tmp/gearpy-baseline.junit.xml')
NOTE = ('oracle observes executions of the real gearpy from /repo working tree; reference models in vf/ref are written from the '
        'documentation and never import gearpy; held-on-what-was-observed only')
CLAIMS = {
 'C01': ('offline trace monitor over recorded histories (reference ratios) on generated simulations', '3/C01'),
 'C02': ('offline trace monitor: reference motor law, torque propagation algebra and load law re-evaluated on recorded state', '3/C02'),
 'C03': ('offline trace monitor: reference inertia reduction and step-update oracle with reference lock machine', '3/C03'),
 'C04': ('differential monitor: simulated trajectories vs closed-form ODE solution on a ladder of step sizes', '3/C04'),
 'C05': ('reference-model monitor: independent SI table over all ordered unit pairs; comparison oracle on SI magnitudes', '3/C05'),
 'C06': ('reference-model monitor: dimension-vector algebra over all kind x operator x unit combinations; inverse-law checks', '3/C06'),
 'C07': ('metamorphic pair monitor: same scenario re-expressed in other units, traces compared in SI', '3/C07'),
 'C08': ('reference-model monitor on DCMotor.compute_torque / compute_electric_current incl. dead-zone ulp neighbours', '3/C08'),
 'C09': ('reference-model monitor: own Lewis/worm tables and stress formulas, exhaustive teeth range, data-subset matrix, in-simulation samples', '3/C09'),
 'C10': ('pre/post-state contracts (frame condition on rejection, reference values on acceptance) over declaration sequences', '3/C10'),
 'C11': ('time-grid oracle on recorded time axes for decimal (dt, n) pairs incl. predicted arange-overrun pairs', '3/C11'),
 'C12': ('pair monitor: continuation vs single run (1e-9) and reset/rerun (bit-exact) histories', '3/C12'),
 'C13': ('online/offline reference lock state machine over public histories, sign and release rules per instant', '3/C13'),
 'C14': ('recording rule proxies + arbitration reference model, post-state check after apply_rules and over whole simulations', '3/C14'),
 'C15': ('reference rule models (window + value) on hand-set states and controlled simulations; limit-current consequence monitor', '3/C15'),
 'C16': ('differential monitor: run without stop condition gives first-true index; stopped run must be its bit-exact prefix', '3/C16'),
 'C17': ('invariant monitor (one sample per instant, kind, last = live attribute) over optional-data matrix x schedules; export/snapshot executed', '3/C17'),
 'C18': ('cell oracle: snapshot / CSV cells vs own conversion and linear interpolation of recorded histories', '3/C18'),
 'C19': ('icontract class invariants on the five sign-constrained kinds + program interpreter inspecting every live object; constructor table', '3/C19'),
 'C20': ('history + executable model: shadow drive graph updated per declaration call vs Powertrain.elements / self_locking', '3/C20'),
}
TEXT = 'exploration by runtime monitoring: held on every execution observed in this run (counts in the evidence file); no claim beyond the generated workload'
props = [json.loads(l) for l in open(os.path.join(ROOT, 'properties.jsonl'))]
na_reasons = json.load(open(os.path.join(ROOT, 'tools', 'not_applicable.json'))) if os.path.exists(os.path.join(ROOT, 'tools', 'not_applicable.json')) else {}
checks, na = [], []
for p in props:
    pid = p['id']
    if os.path.exists(os.path.join(ROOT, 'vf', 'checks', pid.lower() + '.py')) and pid not in na_reasons:
        tech, ref = CLAIMS[pid]
        checks.append({'property_id': pid, 'quick_cmd': f'./check {pid} --tier quick', 'thorough_cmd': f'./check {pid} --tier thorough',
                       'evidence_file': f'/verif/evidence/{pid}.json', 'replay_cmd_template': f'./check {pid} --replay {{path}}',
                       'engine': 'vf', 'level_claimed': {'category': 'exploration', 'text': TEXT, 'design_ref': 'DESIGN.md section ' + ref},
                       'level_note': NOTE, 'technique': 'runtime monitoring: ' + tech})
    else:
        na.append({'property_id': pid, 'reason': na_reasons.get(pid, 'monitor not built yet in this round (runtime monitoring applies; see DESIGN.md section 3)')})
m = {'version': 1, 'setup_cmd': './check --setup',
     'hooks': {'guard': 'GEARPY_VERIF', 'enable': 'no source hooks: monitors attach through public extension points (external_torque callback, RuleBase proxies, SensorBase probe) and icontract invariants applied from the harness; the guard variable is declared but unused',
               'baseline_off_cmd': BASE, 'source_commits': [], 'add_only': True},
     'engines': [{'name': 'vf', 'path': 'vf', 'serves_properties': [c['property_id'] for c in checks],
                  'kind_free_text': 'python runtime-monitoring framework: scenario generators, drivers of the real library, trace/contract/reference-model monitors, sharded runner'}],
     'checks': checks, 'not_applicable': na,
     'notes': 'exit 0 held / exit 1 VIOLATION / exit 2 INCONCLUSIVE (starved monitor, watchdog, import failure). Known findings in known_findings.json; seeded breaking changes in seeded/.'}
json.dump(m, open(os.path.join(ROOT, 'MANIFEST.json'), 'w'), indent=1)
print(len(checks), 'checks claimed;', len(na), 'not claimed')
