#!/bin/bash
# tools/seedregress.sh [tag ...]   -- every kept seeded change (seeded/<tag>/patch.diff) applied to a scratch copy of /repo and
# the quick tier of the check(s) that caught it (seeded/<tag>/meta.json) run against that copy: must still exit 1.
# Prints one line per change; exit status 1 if any change is no longer caught.
set -u
ROOT=$(cd "$(dirname "$0")/.." && pwd)
TAGS=("$@"); [ ${#TAGS[@]} -eq 0 ] && TAGS=($(ls "$ROOT/seeded"))
BAD=0
for T in "${TAGS[@]}"; do
  SD="$ROOT/seeded/$T"; [ -f "$SD/patch.diff" ] || continue
  SCR=$(mktemp -d /var/tmp/vf-regr-XXXXXX)
  mkdir -p "$SCR/tree" && cp -r /repo/gearpy "$SCR/tree/" && find "$SCR/tree" -name __pycache__ -type d -exec rm -rf {} + 2>/dev/null
  if ! ( cd "$SCR/tree" && git init -q . && git apply --whitespace=nowarn "$SD/patch.diff" ) 2>/dev/null; then echo "$T apply=FAILED"; BAD=1; rm -rf "$SCR"; continue; fi
  CHECKS=$(python3 -c "import json,sys; m=json.load(open('$SD/meta.json')); print(' '.join(c['property'] for c in m['confirmed_here']['checks'] if c['exit']==1))")
  if [ -z "$CHECKS" ]; then echo "$T recorded-as-not-caught (see DESIGN 4.2, 'not pursued')"; continue; fi
  RES=""
  OK=0
  for P in $CHECKS; do
    VERIF_REPO="$SCR/tree" VERIF_OUT="$SCR/out" "$ROOT/check" "$P" --tier quick >/dev/null 2>&1; RC=$?
    RES="$RES $P=$RC"; [ $RC -eq 1 ] && OK=1
  done
  [ $OK -eq 1 ] && echo "$T caught:$RES" || { echo "$T NOT-CAUGHT:$RES"; BAD=1; }
  rm -rf "$SCR"
done
exit $BAD
