"""Idempotent offline install of icontract/deal next to the repo's interpreter (into /verif/.deps)."""
import os
import subprocess
import sys

ROOT = os.path.dirname(os.path.dirname(os.path.abspath(__file__)))
DEPS = os.path.join(ROOT, '.deps')
WHEELS = '/opt/veriftools/wheels'


def have():
    return os.path.isdir(os.path.join(DEPS, 'icontract')) and os.path.isdir(os.path.join(DEPS, 'deal'))


def ensure(verbose=False):
    if have():
        return True
    env = dict(os.environ, PIP_NO_INDEX='1', PIP_DISABLE_PIP_VERSION_CHECK='1')
    cmd = ['/venv/bin/python', '-m', 'pip', 'install', '--quiet', '--no-index', '--find-links', WHEELS,
           '--target', DEPS, 'icontract', 'deal']
    r = subprocess.run(cmd, env=env, capture_output=True, text=True)
    if verbose or r.returncode:
        sys.stderr.write(r.stdout + r.stderr)
    return have()
