"""Shard context, result merging, evidence writing, known-finding matching.

A check module (vf.checks.cXX) provides:
    PROPERTY, RULE, ASSUMPTIONS
    def shard(ctx)                 -- run this shard's workload, report through ctx
    def floors(tier) -> dict       -- minimum values of merged counters (starved monitor => inconclusive)
    def replay(ctx, case)          -- re-execute one recorded case under the same monitor
    optional: NSHARDS(tier), TIMEOUT(tier), finalize(cov, merged)
"""
import json
import math
import os
import random
import sys
import time

ROOT = os.path.dirname(os.path.dirname(os.path.abspath(__file__)))
MAX_VIOLATIONS_KEPT = 12
MAX_SAMPLES = 5


def repo_path():
    return os.path.realpath(os.environ.get('VERIF_REPO', '/repo'))


def use_tree():
    """Put the tree under test first on sys.path and make sure gearpy comes from it."""
    rp = repo_path()
    if sys.path[0] != rp:
        sys.path.insert(0, rp)
    deps = os.path.join(ROOT, '.deps')
    if deps not in sys.path:
        sys.path.append(deps)
    import gearpy
    gf = os.path.realpath(gearpy.__file__)
    if not gf.startswith(rp + os.sep):
        raise ImportError(f'gearpy imported from {gf}, not from the tree under test {rp}')
    return gearpy


def mkrng(*parts):
    return random.Random(':'.join(str(p) for p in parts))


def jsonable(x, depth=0):
    if depth > 12:
        return repr(x)
    if isinstance(x, (str, bool)) or x is None:
        return x
    if isinstance(x, int):
        return x
    if isinstance(x, float):
        if math.isfinite(x):
            return x
        return repr(x)
    if isinstance(x, dict):
        return {str(k): jsonable(v, depth + 1) for k, v in x.items()}
    if isinstance(x, (list, tuple, set, frozenset)):
        return [jsonable(v, depth + 1) for v in x]
    try:
        import numpy as np
        if isinstance(x, np.generic):
            return jsonable(x.item(), depth + 1)
    except Exception:
        pass
    if hasattr(x, 'value') and hasattr(x, 'unit'):
        try:
            return {'k': type(x).__name__, 'v': jsonable(x.value), 'u': x.unit}
        except Exception:
            pass
    return repr(x)


class Ctx:
    """What a shard reports. Everything is plain data so it can be merged."""

    def __init__(self, prop, tier, seed, shard, nshards, replaying=False):
        self.prop, self.tier, self.seed, self.shard, self.nshards = prop, tier, seed, shard, nshards
        self.counters = {}
        self.sets = {}
        self.maxes = {}
        self.samples = []
        self.violations = []
        self.n_violations = 0
        self.known = {}
        self.inconclusive = []
        self.observations = {}
        self.replaying = replaying
        self.t0 = time.time()
        self.scratch = None

    # --- reporting API -------------------------------------------------
    def count(self, name, n=1):
        self.counters[name] = self.counters.get(name, 0) + n

    def seen(self, setname, key):
        self.sets.setdefault(setname, set()).add(key if isinstance(key, str) else json.dumps(jsonable(key), sort_keys=True))

    def max(self, name, v):
        if v == v and (name not in self.maxes or v > self.maxes[name]):
            self.maxes[name] = v

    def sample(self, obj, force=False):
        if len(self.samples) < MAX_SAMPLES or force:
            self.samples.append(jsonable(obj))

    def observe(self, name, witness=None):
        o = self.observations.setdefault(name, {'count': 0, 'example': None})
        o['count'] += 1
        if o['example'] is None and witness is not None:
            o['example'] = jsonable(witness)

    def violation(self, monitor, witness, case=None):
        self.n_violations += 1
        if len(self.violations) < MAX_VIOLATIONS_KEPT:
            self.violations.append({'monitor': monitor, 'witness': jsonable(witness), 'case': jsonable(case)})

    def known_finding(self, kf_id, witness, case=None):
        k = self.known.setdefault(kf_id, {'count': 0, 'example': None, 'case': None})
        k['count'] += 1
        if k['example'] is None:
            k['example'] = jsonable(witness)
            k['case'] = jsonable(case)

    def starve(self, reason):
        self.inconclusive.append(reason)

    def rng(self, *parts):
        return mkrng(self.prop, self.seed, *parts)

    def my_cases(self, n):
        """Indices of the cases this shard owns out of n (round robin)."""
        return range(self.shard, n, self.nshards)

    def dump(self):
        return {
            'counters': self.counters,
            'sets': {k: sorted(v) for k, v in self.sets.items()},
            'maxes': self.maxes,
            'samples': self.samples,
            'violations': self.violations,
            'n_violations': self.n_violations,
            'known': self.known,
            'inconclusive': self.inconclusive,
            'observations': self.observations,
            'wall_s': time.time() - self.t0,
        }


def merge(dumps):
    m = {'counters': {}, 'sets': {}, 'maxes': {}, 'samples': [], 'violations': [], 'n_violations': 0,
         'known': {}, 'inconclusive': [], 'observations': {}}
    for d in dumps:
        for k, v in d['counters'].items():
            m['counters'][k] = m['counters'].get(k, 0) + v
        for k, v in d['sets'].items():
            m['sets'].setdefault(k, set()).update(v)
        for k, v in d['maxes'].items():
            if k not in m['maxes'] or v > m['maxes'][k]:
                m['maxes'][k] = v
        m['samples'].extend(d['samples'])
        m['violations'].extend(d['violations'])
        m['n_violations'] += d['n_violations']
        for k, v in d['known'].items():
            e = m['known'].setdefault(k, {'count': 0, 'example': None, 'case': None})
            e['count'] += v['count']
            if e['example'] is None:
                e['example'], e['case'] = v['example'], v.get('case')
        m['inconclusive'].extend(d['inconclusive'])
        for k, v in d['observations'].items():
            e = m['observations'].setdefault(k, {'count': 0, 'example': None})
            e['count'] += v['count']
            if e['example'] is None:
                e['example'] = v['example']
    # keep samples from different shards
    m['samples'] = m['samples'][::max(1, len(m['samples']) // MAX_SAMPLES)][:MAX_SAMPLES]
    return m


def load_known_findings():
    p = os.path.join(ROOT, 'known_findings.json')
    if not os.path.exists(p):
        return []
    with open(p) as f:
        return json.load(f).get('findings', [])
