"""C13 -- a self-locking powertrain is never driven by its load (reference lock machine over public histories)."""
import math
from ..sim import gen as GEN, mon as MON
from ..ref import si as SI
from . import simcommon as SC

PROPERTY = 'C13'
RULE = ('worm chains with friction on both sides of f = cos(alpha) tan(beta) (incl. +-1 ulp), loads from 0 to 100x stall of either sign, '
        'duty-cycle histories from ConstantPWM windows with sign changes and zeros, preset duty cycles, initial speeds of either sign, '
        'continued runs, wheel->worm chains; at every instant the observable behaviour (zeros / constant positions / advanced speed) must '
        'agree with the one-step reference lock machine evaluated from the previous recorded instant; the sign rule motor speed vs duty cycle '
        'in force and the release rule are checked directly. non-trivial = scenario with >=1 engagement and >=1 release; distinct by '
        'topology x duty-cycle pattern x load sign')
ASSUMPTIONS = ['duty cycle in force at instant k = pwm recorded at k-1 (for the first instant: the motor pwm read before the run)',
               'zero comparisons exact; non-zero advanced speeds / torques within 1e-9 of the scale (or within the library absolute 1e-12) are near-threshold: either outcome accepted',
               'the solver private flag is read through the probe sensor only as a cross-check (observation, never a verdict)']
HEADLINE = ['scenarios', 'selflocking_instants', 'nonlocking_instants', 'engagements', 'held_instants', 'releases', 'free_instants',
            'duty_sign_changes', 'near_threshold', 'flag_compared', 'selflocking_scenarios']


def floors(tier):
    return {'selflocking_scenarios': 200, 'engagements': 200, 'held_instants': 2000, 'releases': 50, 'nonlocking_instants': 1000,
            'duty_sign_changes': 100, 'manual_duty_cycle_scenarios': 40, 'flag_compared': 1000, 'set:nontrivial': 20}


def n_cases(tier):
    return 640 if tier == 'quick' else 20000


def scenario(rng, i):
    m = i % 8
    prof = dict(p_continue=0.4, p_reset=0.1, p_pwm_preset=0.5, p_ic_zero=0.4, p_overload=0.4, p_big_overload=0.25,
                n_lo=15, n_hi=70, max_stages=2, p_speed_load=0.3, p_pos_load=0.2, p_time_load=0.4)
    force = True if m < 6 else (False if m == 6 else None)
    spec = GEN.gen_scenario(rng, prof, force_selflock=force)
    if m == 5:
        # friction at the threshold and its floating-point neighbours
        for prev, e in zip([spec['motor']] + spec['chain'], spec['chain']):
            if e['rel']['type'] == 'worm' and prev['type'] == 'wormgear':
                a, b = GEN.qsi(prev['pa']), GEN.qsi(prev['helix'])
                crit = math.cos(a) * math.tan(b)
                e['rel']['f'] = min(1.0, rng.choice([crit, math.nextafter(crit, 2), math.nextafter(crit, 0), crit * (1 - 1e-3), crit * (1 + 1e-3), crit * 0.98, crit * 1.02]))
                if rng.random() < 0.35 and crit < 1:
                    # exactly ON the threshold, computed from the worm's own angle objects: the strict condition says "not self-locking"
                    e['rel'].update(f=crit, f_is_threshold=True)
    if m == 6 and rng.random() < 0.5:
        # a chain WITHOUT self-locking standing still with the motor off and no load; then another Solver object takes over and
        # a load starts acting: the chain is driven by it (nothing may hold it)
        spec['load'].update(A=0.0, B=0.0, C=0.0, S=0.0, W=0.0, step_t=None, step_A=0.0)
        spec['load'].pop('P', None)
        spec['ic'] = dict(spec['ic'], pos=GEN.Q('AngularPosition', 0.0, 'rad'), speed=GEN.Q('AngularSpeed', 0.0, 'rad/s'), pwm=0)
        dt = spec['schedule'][0]['dt']
        l2 = dict(spec['load'], A=GEN.sig(0.5 * spec['_ref']['T_out'], 4))
        spec['schedule'] = [{'op': 'run', 'dt': dt, 'T': GEN.mulq(dt, rng.randint(4, 12))}, {'op': 'swapsolver'}, {'op': 'setload', 'load': l2},
                            {'op': 'run', 'dt': dt, 'T': GEN.mulq(dt, rng.randint(6, 20))}]
        spec['manual_pwm'] = True
        spec['probe'] = True
        return spec
    if m == 3:
        # no controller at all: the duty cycle is assigned by hand between consecutive runs (1 -> 0 -> -1 -> ...)
        dt = spec['schedule'][0]['dt']
        sched = [spec['schedule'][0]]
        for v in rng.sample([0, -1, 1, 0.5, -0.4, 0], 3):
            sched += [{'op': 'setpwm', 'value': v}] + ([{'op': 'swapsolver'}] if rng.random() < 0.5 else []) + [{'op': 'run', 'dt': dt, 'T': GEN.mulq(dt, rng.randint(4, 20))}]
        spec['schedule'] = sched
        spec['manual_pwm'] = True
    elif m != 7 or rng.random() < 0.5:
        GEN.add_const_rules(rng, spec, n_rules=rng.randint(1, 5))
    if m in (2, 7) and rng.random() < 0.5 and not spec.get('manual_pwm'):
        from . import c15 as C15          # position-keyed rule: the duty cycle changes with the state, also across zero
        spec['rules'].append(C15.make_rule(rng, spec, 'reach', sim=True))
    spec['probe'] = True
    return spec


def pattern(spec):
    return ''.join(('0' if r['value'] == 0 else ('+' if r['value'] > 0 else '-')) if r['type'] == 'const' else 'R' for r in spec['rules']) + ('L+' if spec['load']['A'] >= 0 else 'L-')


def nontrivial(spec, ana):
    eng = rel = False
    for k in range(1, ana.N):
        if ana.info[k]['engage'] and not ana.observed_held(k - 1):
            eng = True
        if ana.info[k]['release'] and ana.observed_held(k - 1):
            rel = True
    return eng and rel


def mon(ctx, ana, case):
    if ana.nums['self_locking']:
        ctx.count('selflocking_scenarios')
        if ana.spec.get('manual_pwm'):
            ctx.count('manual_duty_cycle_scenarios')
    b = getattr(ctx, 'current_built', None)
    flags = None
    plog = getattr(ana.tr, 'probe_log', None)
    if b is not None and plog:
        # probe entry j was logged after instant (n-1) was recorded; instant 0 of a fresh run has no probe call
        flags = [None] * ana.tr.n
        for n, bad, flag in plog:
            if 0 < n <= ana.tr.n:
                flags[n - 1] = flag
            if bad:
                ctx.violation('sanitizer:series-length-at-instant', {'bad': bad}, None)
    MON.check_c13(ctx, ana, case, flag_log=flags)


def one(ctx, spec, case):
    SC.simulate_and_monitor(ctx, spec, case, [mon], nontrivial=nontrivial, key_extra=pattern(spec))


def shard(ctx):
    for i in ctx.my_cases(n_cases(ctx.tier)):
        spec = scenario(ctx.rng('case', i), i)
        one(ctx, spec, {'kind': 'scenario', 'index': i, 'spec': spec})


def replay(ctx, case):
    one(ctx, case['spec'], case)
