"""Shared workload of C10 and C20: pools of elements and random sequences of relation declarations,
each call observed at the client boundary (arguments, public state before/after, result or exception class)."""
import math
from ..ref import si as SI
from ..sim import build as B

PA_MAX = {14.5: 16.0, 20.0: 25.0, 25.0: 35.0, 30.0: 45.0}
ATTRS = ['drives', 'driven_by', 'mating_role', 'master_gear_ratio', 'master_gear_efficiency', 'self_locking']


def snap(o):
    """public relation state of an element (identities for object-valued attributes)"""
    out = []
    for a in ATTRS:
        if hasattr(type(o), a) or hasattr(o, a):
            try:
                v = getattr(o, a)
            except Exception as ex:
                v = 'raises:' + type(ex).__name__
            if a in ('drives', 'driven_by') and v is not None and not isinstance(v, str):
                v = ('id', id(v))
            out.append((a, v))
    try:
        out.append(('time_variables', tuple(o.time_variables)))
    except Exception:
        pass
    return tuple(out)


def q_si(q):
    return q.value * SI.FACT[type(q).__name__][q.unit]


def same_magnitude(a, b):
    x, y = q_si(a), q_si(b)
    return abs(x - y) <= 1e-9 * max(abs(x), abs(y), 1e-300)


def make_pool(rng, n_lo=2, n_hi=12, dup_p=0.12):
    G = B.g()
    mo, un = G.mo, G.un
    J = un.InertiaMoment(5, 'gcm^2')
    cnt = [0]

    def nm():
        cnt[0] += 1
        if rng.random() < 0.06:
            return rng.choice(['e1 ', ' e1', 'motor ', 'dup ', 'E1'])          # different strings: NOT duplicates of 'e1' / 'motor' / 'dup'
        return f'e{cnt[0]}' if rng.random() > dup_p else rng.choice(['dup', 'e1', 'motor'])
    pool = [mo.DCMotor(name='motor', no_load_speed=un.AngularSpeed(2000, 'rpm'), maximum_torque=un.Torque(10, 'mNm'), inertia_moment=J)]
    modules = [None, None, un.Length(1, 'mm'), un.Length(2, 'mm'), un.Length(0.1, 'cm'), un.Length(0.002, 'm'), un.Length(2, 'cm'), un.Length(1, 'cm')]
    helixes = [un.Angle(10, 'deg'), un.Angle(20, 'deg'), un.Angle(20, 'deg'), un.Angle(1200, 'arcmin'), un.Angle(0.4, 'rad'), un.Angle(0.4, 'deg'),
               un.Angle(30, 'deg'), un.Angle(0.5235987755982988, 'rad')]
    mo_plain, mo_sub = mo, B._MoProxy(mo)
    for _ in range(rng.randint(n_lo, n_hi)):
        # one element in seven is an instance of a trivial user subclass of its class (a part number added)
        mo = mo_sub if rng.random() < 0.15 else mo_plain
        k = rng.choice(['fly', 'spur', 'spur', 'hel', 'hel', 'wg', 'ww', 'wg', 'ww'])
        mod = rng.choice(modules)
        if k == 'fly':
            pool.append(mo.Flywheel(name=nm(), inertia_moment=J))
        elif k == 'spur':
            pool.append(mo.SpurGear(name=nm(), n_teeth=rng.randint(10, 60), inertia_moment=J, module=mod))
        elif k == 'hel':
            pool.append(mo.HelicalGear(name=nm(), n_teeth=rng.randint(10, 60), inertia_moment=J, module=mod, helix_angle=rng.choice(helixes)))
        else:
            pa = rng.choice([14.5, 20.0, 20.0, 25.0, 30.0, 30.0])
            hx = rng.choice([0.0, 5.0, 10.0, PA_MAX[pa], PA_MAX[pa] - 1, 12.5])
            hx = min(hx, PA_MAX[pa])
            pau = un.Angle(pa, 'deg') if rng.random() < 0.7 else un.Angle(SI.convert('Angle', pa, 'deg', 'rad'), 'rad')
            hxu = un.Angle(hx, 'deg') if rng.random() < 0.7 else un.Angle(hx * 60, 'arcmin')
            if k == 'wg':
                pool.append(mo.WormGear(name=nm(), n_starts=rng.randint(1, 4), inertia_moment=J, pressure_angle=pau, helix_angle=hxu,
                                        reference_diameter=rng.choice([None, un.Length(10, 'mm')])))
            else:
                pool.append(mo.WormWheel(name=nm(), n_teeth=rng.randint(10, 60), inertia_moment=J, pressure_angle=pau, helix_angle=hxu, module=rng.choice([None, un.Length(1, 'mm')]),
                                         face_width=rng.choice([None, un.Length(5, 'mm')])))
    return pool


def expect_gear(a, b, eff):
    mo = B.g().mo
    if not isinstance(a, mo.GearBase) or not isinstance(b, mo.GearBase):
        return ('reject', 'TypeError')
    if a is b:
        return ('reject', 'ValueError')
    if not isinstance(eff, (int, float)):
        return ('reject', 'TypeError')
    if eff > 1 or eff < 0:
        return ('reject', 'ValueError')
    if a.module is not None and b.module is not None and not same_magnitude(a.module, b.module):
        return ('reject', 'ValueError')
    ha, hb = hasattr(a, 'helix_angle'), hasattr(b, 'helix_angle')
    if ha != hb:
        return ('reject', 'ValueError')
    if ha and not same_magnitude(a.helix_angle, b.helix_angle) and not (q_si(a.helix_angle) == 0 == q_si(b.helix_angle)):
        return ('reject', 'ValueError')
    if isinstance(eff, bool):
        # True / False are ints in Python: accepting them (as 1 / 0) and refusing them are both in line with "float or int";
        # a refusal must leave both gears untouched like any other
        return ('either', None)
    return ('accept', {'ratio': b.n_teeth / a.n_teeth, 'eff': eff})


def expect_worm(a, b, f, exact_threshold=False):
    mo = B.g().mo
    W = (mo.WormGear, mo.WormWheel)
    if not isinstance(a, W) or not isinstance(b, W):
        return ('reject', 'TypeError')
    if isinstance(a, mo.WormGear) == isinstance(b, mo.WormGear):
        return ('reject', 'TypeError')
    if not isinstance(f, (int, float)):
        return ('reject', 'TypeError')
    if f > 1 or f < 0:
        return ('reject', 'ValueError')
    if not same_magnitude(a.pressure_angle, b.pressure_angle):
        return ('reject', 'ValueError')
    al, be = q_si(a.pressure_angle), q_si(a.helix_angle)
    if math.tan(be) == 0:
        return ('reject', 'ValueError|ZeroDivisionError')
    wg = a if isinstance(a, mo.WormGear) else b
    wh = b if wg is a else a
    if wg is a:
        eta = (math.cos(al) - f * math.tan(be)) / (math.cos(al) + f / math.tan(be))
        r = wh.n_teeth / wg.n_starts
    else:
        eta = (math.cos(al) - f / math.tan(be)) / (math.cos(al) + f * math.tan(be))
        r = wg.n_starts / wh.n_teeth
    if eta < -1e-12 or eta > 1 + 1e-12:
        return ('reject', 'ValueError')
    if eta < 1e-12 or eta > 1 - 1e-12 or isinstance(f, bool):
        return ('either', None)
    if exact_threshold:
        # f was computed by the caller from worm.pressure_angle.cos() * worm.helix_angle.tan(): exactly ON the threshold (the
        # documented condition f > cos(alpha) tan(beta) is strict) or 8e-15 relative above / below it
        return ('accept', {'ratio': r, 'eff': eta, 'worm': wg, 'self_locking': exact_threshold == 'above'})
    crit = math.cos(q_si(wg.pressure_angle)) * math.tan(q_si(wg.helix_angle))
    margin = abs(f - crit) / max(abs(f), abs(crit), 1e-300)
    return ('accept', {'ratio': r, 'eff': eta, 'worm': wg, 'self_locking': (f > crit) if margin > 1e-9 else None})


def expect_joint(a, b):
    mo = B.g().mo
    if not isinstance(a, mo.RotatingObject) or not isinstance(b, mo.RotatingObject):
        return ('reject', 'TypeError')
    if isinstance(b, mo.MotorBase):
        return ('reject', 'TypeError')
    if a is b:
        return ('reject', 'ValueError')
    return ('accept', {'ratio': 1.0})


import fractions as _fr
import decimal as _dec
import numpy as _np
# in-range reals that are neither float nor int (documented parameter type: float or int): rejected, and like every rejection
# without touching either element
ODD_REALS = [_fr.Fraction(9, 10), _dec.Decimal('0.5'), _np.float32(0.5), _np.int64(1), _np.float16(0.25)]
EFFS = [0.9, 1, 0, 0.5, 1.0, 0.05, 1.2, -0.1, 1.0000001, '0.9', None, True, False] + ODD_REALS
FRICS = [0, 0.05, 0.05, 0.1, 0.3, 0.6, 1, 1.0, 0.9, 1.5, -0.2, '0.1', True, False] + ODD_REALS[:3]


class Call:
    pass


def do_call(rng, pool, extra_objects=()):
    """perform one random declaration; returns a Call record (never raises)"""
    ut = B.g().ut
    c = Call()
    c.fn = rng.choice(['gear', 'gear', 'worm', 'worm', 'joint', 'joint', 'joint'])
    cand = pool + list(extra_objects)
    c.a, c.b = rng.choice(cand), rng.choice(cand)
    if rng.random() < 0.05:
        c.b = c.a
    mo = B.g().mo
    if c.fn == 'worm' and rng.random() < 0.7:
        # targeted: a worm and a wheel (same pressure angle when there is such a pair), either orientation
        wgs = [e for e in pool if isinstance(e, mo.WormGear)]
        wws = [e for e in pool if isinstance(e, mo.WormWheel)]
        pairs = [(g_, w_) for g_ in wgs for w_ in wws if same_magnitude(g_.pressure_angle, w_.pressure_angle)] or [(g_, w_) for g_ in wgs for w_ in wws]
        if pairs:
            g_, w_ = rng.choice(pairs)
            c.a, c.b = (g_, w_) if rng.random() < 0.7 else (w_, g_)
    if c.fn == 'gear' and rng.random() < 0.5:
        gs = [e for e in pool if isinstance(e, mo.GearBase)]
        if len(gs) >= 2:
            c.a, c.b = rng.sample(gs, 2)
            # preferably a pair whose modules are the same length written in two units (the unit-blind acceptance case)
            xs = [(p_, q_) for p_ in gs for q_ in gs if p_ is not q_ and type(p_).__mro__[-5:] == type(q_).__mro__[-5:] and p_.module is not None and q_.module is not None
                  and p_.module.unit != q_.module.unit and same_magnitude(p_.module, q_.module)]
            if xs and rng.random() < 0.4:
                c.a, c.b = rng.choice(xs)
    c.before = (snap(c.a) if hasattr(c.a, 'time_variables') else None, snap(c.b) if hasattr(c.b, 'time_variables') else None)
    c.param = None
    try:
        if c.fn == 'gear':
            c.param = rng.choice(EFFS)
            c.expect = expect_gear(c.a, c.b, c.param)
            ut.add_gear_mating(master=c.a, slave=c.b, efficiency=c.param)
        elif c.fn == 'worm':
            c.param = rng.choice(FRICS)
            if rng.random() < 0.1 and hasattr(c.a, 'pressure_angle') and hasattr(c.a, 'helix_angle'):
                crit = math.cos(q_si(c.a.pressure_angle)) * math.tan(q_si(c.a.helix_angle))
                c.param = rng.choice([crit, math.nextafter(crit, 2), math.nextafter(crit, -1)]) if 0 < crit < 1 else c.param
            exact_ = False
            wg_ = c.a if isinstance(c.a, mo.WormGear) else (c.b if isinstance(c.b, mo.WormGear) else None)
            if wg_ is not None and rng.random() < 0.12:
                lc_ = wg_.pressure_angle.cos() * wg_.helix_angle.tan()
                if 0 < lc_ < 0.999:
                    # exactly on the threshold (strict condition: not self-locking), or a few tens of ulps off it on either side
                    # (far beyond any evaluation-order noise of cos*tan, far inside any "tolerance" a comparison might apply)
                    c.param, exact_ = rng.choice([(lc_, True), (lc_ * (1 + 8e-15), 'above'), (lc_ * (1 - 8e-15), 'below')])
            c.expect = expect_worm(c.a, c.b, c.param, exact_threshold=exact_)
            ut.add_worm_gear_mating(master=c.a, slave=c.b, friction_coefficient=c.param)
        else:
            c.expect = expect_joint(c.a, c.b)
            ut.add_fixed_joint(master=c.a, slave=c.b)
        c.outcome = None
    except Exception as ex:
        c.outcome = type(ex).__name__
        c.message = str(ex)[:120]
    c.after = (snap(c.a) if hasattr(c.a, 'time_variables') else None, snap(c.b) if hasattr(c.b, 'time_variables') else None)
    return c


def describe(o):
    d = {'class': type(o).__name__}
    for a in ('name', 'n_teeth', 'n_starts', 'module', 'helix_angle', 'pressure_angle'):
        if hasattr(o, a):
            try:
                d[a] = getattr(o, a)
            except Exception:
                pass
    return d
