"""C12 -- continuation and reset/rerun reproduce the same history (pair monitor over two executions)."""
import copy
import math
from ..ref import si as SI
from ..sim import gen as GEN, build as B, mon as MON
from . import simcommon as SC

PROPERTY = 'C12'
RULE = ('pairs of executions of one generated model: (a) run(T1); continue(T2) [; continue(T3)] vs one run of the total time with the same step, the '
        'continuation expressing dt and T in the same or another time unit, compared at 1e-9 (axis and every history of every element); (b) schedule, reset, '
        're-apply (position, speed, duty cycle), same schedule again with the same or a new Solver, compared bit-exactly. Models include self-locking chains '
        'that end run 1 locked, ConstantPWM-controlled motors (window edges on half steps), time- and state-dependent loads. Baselines with a near-threshold '
        'lock decision are excluded from (a). non-trivial = split strictly inside the run with a state- or time-dependent load; distinct by topology x schedule shape x units')
ASSUMPTIONS = ['continuation uses the same Solver object (documented usage); initial conditions = position and speed of the last element and the motor duty cycle',
               'series compared at 1e-9 relative with a floor of 1e-9 of the series maximum']
HEADLINE = ['rely_on_reset_for_duty_cycle', 'reset_pwm_guard_excluded', 'pairs_continuation', 'pairs_reset', 'unit_change_pairs', 'three_way_splits', 'ended_run1_locked', 'bit_exact_series', 'new_solver_reruns',
            'same_solver_reruns', 'excluded_near_threshold', 'instants_compared']


def floors(tier):
    return {'pairs_continuation': 200, 'pairs_reset': 150, 'unit_change_pairs': 80, 'ended_run1_locked': 20, 'bit_exact_series': 3000, 'new_solver_reruns': 40,
            'same_solver_reruns': 40, 'three_way_splits': 30, 'rely_on_reset_for_duty_cycle': 40, 'set:nontrivial': 40}


def n_cases(tier):
    return 640 if tier == 'quick' else 20000


def half_step_rules(rng, spec, n):
    """ConstantPWM windows whose edges sit on half steps, so that window membership is never a rounding matter"""
    dt0 = spec['schedule'][0]['dt']
    dts = GEN.qsi(dt0)
    t = rng.randint(0, max(1, n // 4)) + 0.5
    for _ in range(rng.randint(1, 3)):
        d = rng.randint(1, max(2, n // 3))
        v = rng.choice([-1, -0.5, 0, 0, 0.5, 1, GEN.sig(rng.uniform(-1, 1), 2)])
        spec['rules'].append({'type': 'const', 'start': GEN.Q('Time', GEN.sig(t * dts, 12), 'sec'), 'dur': GEN.Q('TimeInterval', GEN.sig(d * dts, 12), 'sec'), 'value': v})
        t += d + rng.randint(1, 4)


def model(rng, i):
    m = i % 8
    prof = dict(p_continue=0.0, p_reset=0.0, n_lo=12, n_hi=60, p_overload=0.35, p_big_overload=0.15, max_stages=3, p_noload_start=0.0)
    force = True if m in (0, 1, 2) else None
    spec = GEN.gen_scenario(rng, prof, force_selflock=force)
    n = spec['_ref']['n']
    if m in (0, 3, 4) or rng.random() < 0.25:
        half_step_rules(rng, spec, n)
    if m in (1, 2) and rng.random() < 0.6:
        # a run that *ends* with a zero or reversed duty cycle (state that reset() has to undo), with and without motor current data
        dts = GEN.qsi(spec['schedule'][0]['dt'])
        k0 = rng.randint(n // 3, max(n // 3 + 1, n - 3)) + 0.5
        spec['rules'] = [{'type': 'const', 'start': GEN.Q('Time', GEN.sig(k0 * dts, 12), 'sec'), 'dur': GEN.Q('TimeInterval', GEN.sig(3 * n * dts, 12), 'sec'),
                          'value': rng.choice([0, 0, -1, -0.5])}]
        if rng.random() < 0.5:
            spec['motor']['i0'] = spec['motor']['imax'] = None
    if m in (5, 6) and rng.random() < 0.85:
        # state-keyed rules (position ramp, braking before a target, current limit): rule objects that live through reset/rerun
        from . import c15 as C15
        kinds = ['reach', 'startprop', 'startlim'] if spec['motor']['i0'] is not None else ['reach']
        spec['rules'].append(C15.make_rule(rng, spec, kinds[(i // 8) % len(kinds)], sim=True))       # every kind meets both pair types
    return spec, n


def execute(spec, raw=False):
    b = B.build(spec)
    b.raw_capture = raw
    runs = B.run_schedule(b)
    return b, runs, B.extract(b, raw=raw)


def compare_traces(a, b_, rel=1e-9):
    """first difference between two traces (SI), or None"""
    if a.n != b_.n:
        return {'what': 'axis length', 'a': a.n, 'b': b_.n}
    T = max(abs(x) for x in a.time) if a.time else 0
    for k, (x, y) in enumerate(zip(a.time, b_.time)):
        if abs(x - y) > rel * T:
            return {'what': 'time', 'instant': k, 'a': x, 'b': y}
    for ea, eb in zip(a.els, b_.els):
        if set(ea['vars']) != set(eb['vars']):
            return {'what': 'variables', 'element': ea['name'], 'a': sorted(ea['vars']), 'b': sorted(eb['vars'])}
        for v, sa in ea['vars'].items():
            sb = eb['vars'][v]
            if len(sa) != len(sb):
                return {'what': 'series length', 'element': ea['name'], 'variable': v, 'a': len(sa), 'b': len(sb)}
            fin = [abs(x) for x in sa if math.isfinite(x)]
            sc = max(fin) if fin else 0.0
            if 'torque' in v:
                # the three torques of an element are differences / sums of one another: a series that is zero up to rounding
                # (motor exactly at its no-load speed, balanced load) is judged on the scale of the element's torques
                sc = max([sc] + [abs(x) for v2 in ('torque', 'driving torque', 'load torque') for x in ea['vars'].get(v2, ()) if math.isfinite(x)])
            for k, (x, y) in enumerate(zip(sa, sb)):
                if x == y or (x != x and y != y):
                    continue
                if not (math.isfinite(x) and math.isfinite(y)):
                    return None if k > 0 else {'what': 'non-finite', 'element': ea['name'], 'variable': v}
                if abs(x - y) > rel * max(abs(x), abs(y)) + rel * sc:
                    if v == 'contact stress' and abs(x * x - y * y) <= rel * sc * sc:
                        # the Hertz stress is the square root of the force: next to zero force a rounding-sized difference of the
                        # force (relative to its scale) is magnified to its square root; compared in the squares there
                        continue
                    return {'what': 'value', 'element': ea['name'], 'variable': v, 'instant': k, 'a': x, 'b': y, 'series_max': sc}
    return None


def pair_continuation(ctx, i, spec, n, rng, case):
    dt = spec['schedule'][0]['dt']
    three = rng.random() < 0.3 and n >= 9
    cuts = [rng.randint(2, n - 2)]
    if three:
        for _ in range(20):
            c = sorted(rng.sample(range(2, n - 1), 2))
            if c[1] - c[0] >= 2 and n - c[1] >= 2:
                cuts = c
                break
        three = len(cuts) == 2
    parts = [cuts[0]] + [b - a for a, b in zip(cuts, cuts[1:])] + [n - cuts[-1]]
    single = copy.deepcopy(spec)
    single['schedule'] = [{'op': 'run', 'dt': dt, 'T': GEN.mulq(dt, n)}]
    split = copy.deepcopy(spec)
    sched = []
    unit_change = False
    for j, p in enumerate(parts):
        d = dt
        if j > 0 and rng.random() < 0.6:
            u = rng.choice([u for u in GEN.time_units_for(GEN.qsi(dt)) if u != dt['u']] or [dt['u']])
            d = GEN.reexpress(dt, u)
            unit_change = u != dt['u']
        Tq = GEN.mulq(dt, p)
        Tq = GEN.reexpress(Tq, d['u']) if d['u'] != dt['u'] else Tq
        if rng.random() < 0.3:
            Tq = GEN.reexpress(Tq, rng.choice(GEN.time_units_for(GEN.qsi(dt))))
        op_ = {'op': 'run', 'dt': d, 'T': Tq}
        if rng.random() < 0.4:
            # the objects handed to run() were converted in place before (e.g. the first run's T re-expressed for the continuation)
            op_['T_via'] = rng.choice(GEN.time_units_for(GEN.qsi(dt)))
            op_['dt_via'] = rng.choice(GEN.time_units_for(GEN.qsi(dt)))
        sched.append(op_)
    if rng.random() < 0.35:
        # the parts are issued through two Solver objects used alternately (the second one is created while a history exists)
        sched3 = []
        for o_ in sched:
            sched3 += [o_, {'op': 'swapsolver'}]
        sched = sched3[:-1]
        ctx.count('split_runs_through_alternating_solvers')
    if rng.random() < 0.25:
        # between the parts of the split run ANOTHER independent model is built and advanced (module-level state, class
        # attributes and caches shared between objects would make the split history differ from the single run)
        other = GEN.gen_scenario(rng, dict(_nested=True, p_continue=1.0, n_lo=4, n_hi=12, max_stages=2), None)
        other.pop('_ref', None)
        sched2 = []
        for o_ in sched:
            sched2 += [o_, {'op': 'bystander', 'spec': other}]
        split['schedule'] = sched2[:-1]
        ctx.count('pairs_with_a_bystander_model')
    else:
        split['schedule'] = sched
    case = dict(case, pair='continuation')
    try:
        b1, r1, t1 = execute(single)
        b2, r2, t2 = execute(split)
    except Exception as ex:
        ctx.violation('harness:valid-scenario-rejected', {'exception': type(ex).__name__ + ': ' + str(ex)[:200]}, case)
        return
    e1 = [r['exc'] for r in r1 if r['exc']]
    e2 = [r['exc'] for r in r2 if r['exc']]
    if e1 or e2:
        if bool(e1) != bool(e2) or (e1 and e1[0][0] != e2[0][0]):
            ctx.violation('C12:continuation-failure-mismatch', {'single': e1, 'split': e2}, case)
        ctx.count('failed_pairs')
        return
    ana = MON.Ana(single, t1, r1)
    if any(inf['near'] for inf in ana.info[:ana.N] if inf):
        ctx.count('excluded_near_threshold')
        return
    if any(r_['type'] == 'startlim' for r_ in spec.get('rules', [])):
        # StartLimitCurrent far beyond the no-load speed, or proposing rounding residue around zero: its root cancels
        # catastrophically and ANY two roundings of the same state (a continuation re-derives its instants) lead to histories
        # that differ by far more than 1e-9 -- ill-conditioned, not a matter of continuation (same exclusion as C07, appendix A10)
        w0_ = GEN.qsi(spec['motor']['w0'])
        if any(abs(w_) > 3 * w0_ for w_ in t1.els[0]['vars']['angular speed']) or any(0 < abs(D_) < 1e-9 for D_ in t1.pwm):
            ctx.count('excluded_ill_conditioned_limit_current')
            return
    ctx.count('pairs_continuation')
    ctx.count('evaluations')
    if unit_change:
        ctx.count('unit_change_pairs')
    if three:
        ctx.count('three_way_splits')
    ended_locked = ana.nums['self_locking'] and cuts[0] < ana.N and ana.states[cuts[0]] == {True}
    if ended_locked:
        ctx.count('ended_run1_locked')
    ctx.count('instants_compared', t1.n)
    diff = compare_traces(t1, t2)
    if diff:
        diff.update(cuts=cuts, dt=dt, split_schedule=[(o['dt'], o['T']) for o in sched if o['op'] == 'run'], self_locking=ana.nums['self_locking'])
        ctx.violation('C12:continuation-differs-from-single-run', diff, case)
        return
    l = spec['load']
    if l['B'] or l['C'] or l['S'] or l['step_t'] is not None:
        ctx.seen('nontrivial', SC.topo_signature(spec) + f'|cont{len(parts)}|' + ''.join(o['dt']['u'][0] for o in sched if o['op'] == 'run'))
    if len(ctx.samples) < 2:
        ctx.sample({'pair': 'continuation', 'topology': SC.topo_signature(spec), 'steps': n, 'cuts': cuts, 'split_units': [o['dt']['u'] for o in sched if o['op'] == 'run'],
                    'instants': t1.n, 'max_abs_output_speed': max(abs(x) for x in t1.els[-1]['vars']['angular speed'])})


def pair_reset(ctx, i, spec, n, rng, case):
    dt = spec['schedule'][0]['dt']
    cont = rng.random() < 0.5
    block = [{'op': 'run', 'dt': dt, 'T': GEN.mulq(dt, n)}]
    if cont:
        u = rng.choice(GEN.time_units_for(GEN.qsi(dt)))
        d2 = GEN.reexpress(dt, u)
        block.append({'op': 'run', 'dt': d2, 'T': GEN.reexpress(GEN.mulq(dt, rng.randint(3, 20)), u)})
    if cont and spec.get('rules') and rng.random() < 0.5:
        # the control is an argument of each call: one segment of the block runs WITHOUT it, on the same solver
        block[rng.randrange(2)]['control'] = False
        ctx.count('blocks_mixing_controlled_and_uncontrolled_runs')
    if cont and not spec.get('rules') and rng.random() < 0.5:
        # the user changes the duty cycle by hand between the two runs of the block (both times): after the reset the first
        # segment must run at the FIRST duty cycle again
        block.insert(1, {'op': 'setpwm', 'value': rng.choice([0.6, -1, 0.3, 0])})
        ctx.count('blocks_with_a_manual_duty_cycle_change')
    new_solver = rng.random() < 0.5
    new_pt = not spec.get('rules') and rng.random() < 0.3
    if new_pt:
        ctx.count('resets_through_a_new_powertrain_object')
    sp = copy.deepcopy(spec)
    sp['schedule'] = block + [{'op': 'newpowertrain' if new_pt else 'reset'}, {'op': 'reapply'}] + ([{'op': 'newsolver'}] if new_solver else []) + copy.deepcopy(block)
    # variant: the user re-applies position and speed only and relies on reset() to restore the duty cycle. Sound only when
    # the restored value (first *recorded* duty cycle, i.e. after control) is lock-equivalent to the one the first run started
    # with: same sign class, or no self-locking mating (judged below, after the first run is known).
    # (not with state-keyed rules: their proposal at the first instant reads the motor's current, which depends on the duty cycle
    # the motor had BEFORE the run -- reset() restores the first recorded one, not that one)
    rely_on_reset_pwm = sp['ic'].get('pwm') is None and rng.random() < 0.5 and not any(r_['type'] != 'const' for r_ in sp.get('rules', []))
    if rely_on_reset_pwm:
        sp['reapply_pwm'] = False
    case = dict(case, pair='reset')
    try:
        b, runs, t2 = execute(sp, raw=True)
    except Exception as ex:
        ctx.violation('harness:valid-scenario-rejected', {'exception': type(ex).__name__ + ': ' + str(ex)[:200]}, case)
        return
    if not b.captures:
        ctx.count('failed_pairs')
        return
    t1, r1 = b.captures[0]
    e1 = [r['exc'] for r in r1 if r['exc']]
    e2 = [r['exc'] for r in runs if r['exc']]
    if e1 or e2:
        if bool(e1) != bool(e2) or (e1 and e1[0] != e2[0]):
            ctx.violation('C12:rerun-failure-mismatch', {'first': e1, 'rerun': e2}, case)
        ctx.count('failed_pairs')
        return
    ana = MON.Ana(spec, t1, r1)
    if rely_on_reset_pwm:
        sgn = lambda x: (float(x) > 0) - (float(x) < 0)
        if ana.nums['self_locking'] and t1.pwm and sgn(t1.pwm[0]) != sgn(r1[0]['pwm_before']):
            ctx.count('reset_pwm_guard_excluded')
            return
        ctx.count('rely_on_reset_for_duty_cycle')
    ctx.count('pairs_reset')
    ctx.count('evaluations')
    ctx.count('new_solver_reruns' if new_solver else 'same_solver_reruns')
    if ana.nums['self_locking'] and ana.N and ana.states[ana.N - 1] == {True}:
        ctx.count('ended_run1_locked')
    diff = None
    if t1.n != t2.n or t1.time != t2.time or t1.time_units != t2.time_units:
        diff = {'what': 'time axis', 'first': [t1.n, t1.time[-1:] if t1.time else None], 'rerun': [t2.n, t2.time[-1:] if t2.time else None]}
    else:
        for ea, eb in zip(t1.els, t2.els):
            for v in ea['vars']:
                ctx.count('bit_exact_series')
                ua, ub = ea['units'].get(v), eb['units'].get(v)
                if ua != ub:
                    k = next((k for k, (x, y) in enumerate(zip(ua, ub)) if x != y and not (x[0] != x[0] and y[0] != y[0])), None)
                    if k is None and len(ua) == len(ub):
                        continue
                    diff = {'what': 'sample', 'element': ea['name'], 'variable': v, 'instant': k, 'first': ua[k] if k is not None else len(ua),
                            'rerun': ub[k] if k is not None else len(ub)}
                    break
            if diff:
                break
    if diff:
        diff.update(new_solver=new_solver, continued=cont, self_locking=ana.nums['self_locking'])
        ctx.violation('C12:rerun-differs-from-first-run', diff, case)
        return
    ctx.seen('nontrivial', SC.topo_signature(spec) + f'|reset{"N" if new_solver else "S"}{"c" if cont else ""}')
    if len(ctx.samples) < 4 and len(ctx.samples) >= 2:
        ctx.sample({'pair': 'reset/rerun', 'topology': SC.topo_signature(spec), 'new_solver': new_solver, 'continued': cont, 'instants': t1.n,
                    'series_compared_bit_exactly': sum(len(e['vars']) for e in t1.els)})


def one(ctx, i):
    rng = ctx.rng('case', i)
    spec, n = model(rng, i)
    case = {'kind': 'pair', 'index': i}
    if i % 2 == 0:
        pair_continuation(ctx, i, spec, n, rng, case)
    else:
        pair_reset(ctx, i, spec, n, rng, case)


def shard(ctx):
    for i in ctx.my_cases(n_cases(ctx.tier)):
        one(ctx, i)


def replay(ctx, case):
    one(ctx, case['index'])
