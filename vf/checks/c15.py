"""C15 -- each control rule applies in its documented window with its documented value (reference rule models)."""
import math
from ..ref import si as SI
from ..ref import rules as RR
from ..ref import motor as RM
from ..sim import gen as GEN, build as B
from . import simcommon as SC

PROPERTY = 'C15'
RULE = ('the four built-in rules with parameters in any units and sensors on any element of random chains (incl. wheel-drives-worm chains and negative motor '
        'load torques): (1) direct rule.apply() calls on hand-set states placed on both sides of, exactly on and 1 ulp beside each window boundary; (2) whole '
        'controlled simulations in which every proposal logged at the RuleBase.apply boundary is compared with the reference rule evaluated on the state recorded '
        'at that instant; (3) while StartLimitCurrent is the applied rule, tachometer on the motor and the proposal lies in (dead zone, 1], the recorded motor '
        'current must equal the limit. The StartLimitCurrent value oracle is the root of the *reference motor current law* found by bisection. '
        'non-trivial = state within 10% of a window boundary, or a simulation crossing one; distinct by (rule, zone, topology)')
ASSUMPTIONS = ['overall efficiency = product of the efficiencies of all matings of the chain (documented)', 'StartProportional: load torque = motor load torque at the first recorded instant of the current history (current value when nothing is recorded yet)',
               'window decisions within 1e-9 relative of their boundary (or within the library absolute 1e-12) are near-threshold: either outcome accepted']
HEADLINE = ['apply_calls', 'apply_const', 'apply_reach', 'apply_startprop', 'apply_startlim', 'zone_open', 'zone_closed', 'near_threshold', 'simulations',
            'sim_proposals_checked', 'limit_current_instants', 'negative_load_cases', 'wheel_master_cases', 'boundary_states']


def floors(tier):
    return {'apply_calls': 20000, 'apply_const': 3000, 'apply_reach': 3000, 'apply_startprop': 3000, 'apply_startlim': 3000, 'zone_open': 5000, 'zone_closed': 5000,
            'simulations': 200, 'sim_proposals_checked': 5000, 'limit_current_instants': 300, 'negative_load_cases': 500, 'wheel_master_cases': 30,
            'boundary_states': 2000, 'exact_edge_states': 300, 'simulations_after_reset_with_the_same_rules': 40, 'set:nontrivial': 60}


def n_cases(tier):
    return 960 if tier == 'quick' else 30000


def eta_total(nums):
    return math.prod(nums['eta'])


def to_unit(rng, q):
    return GEN.reexpress(q, rng.choice(SI.units(q['k'])))


def make_model(rng, i, lock=False):
    prof = dict(p_currents=1.0, p_continue=0.0, p_reset=0.0, n_lo=25, n_hi=80, max_stages=3, p_selflock=0.0, p_worm=0.35,
                p_wheel_master=0.15 if i % 5 else 0.35, p_overload=0.05, p_big_overload=0.0, p_pwm_preset=0.0, p_pos_load=0.2, p_time_load=0.3)
    if lock:
        # a self-locking chain under a load it cannot move at reduced duty cycle: instants at which the powertrain is held
        prof.update(p_overload=0.7, p_big_overload=0.2, p_ic_zero=0.6)
    spec = GEN.gen_scenario(rng, prof, force_selflock=True if lock else False)
    if i % 10 == 7:
        spec['motor']['i0'] = GEN.Q('Current', rng.choice([0, 0.0]), spec['motor']['imax']['u'])          # an ideal motor: no-load current exactly 0 (allowed)
    if i % 3 == 0:
        spec['load']['A'] = -abs(spec['load']['A']) - 0.05 * spec['_ref']['T_out']      # load helping the motor: negative motor load torque (defect D12's trigger)
    return spec


def make_rule(rng, spec, kind, sim=False):
    ref = spec['_ref']
    n = ref['n']
    n_el = len(spec['chain']) + 1
    nums = GEN.chain_numbers(spec)
    enc = rng.randrange(n_el)
    g_enc = math.prod(nums['r'][enc:])           # position of element enc = g_enc * position of the last element
    pos0 = GEN.qsi(spec['ic']['pos'])
    travel = abs(ref['w_out'] * ref['dt_si'] * n) * 0.4 + 1e-3
    if kind == 'const':
        dt0 = spec['schedule'][0]['dt']
        t0, d = rng.randint(0, n // 2), rng.randint(2, n // 2)
        if not sim and rng.random() < 0.5:
            # integer-valued window in one unit: membership at the edges is exact arithmetic, hence determined
            u = rng.choice(SI.units('Time'))
            return {'type': 'const', 'start': GEN.Q('Time', float(rng.randint(0, 50)), u), 'dur': GEN.Q('TimeInterval', float(rng.randint(1, 50)), u),
                    'value': rng.choice([-1, -0.5, 0, 0.25, 0.5, 1]), 'exact': True}
        oku = GEN.time_units_for(GEN.qsi(dt0))      # time values stay >= 1e-6 in their unit (outside defect D9's absolute-tolerance zone)
        return {'type': 'const', 'start': GEN.reexpress(GEN.Q('Time', GEN.mulq(dt0, t0)['v'] if t0 else 0.0, dt0['u']), rng.choice(oku)),
                'dur': GEN.reexpress(GEN.mulq(dt0, d), rng.choice(oku)), 'value': rng.choice([-1, -0.5, 0, 0.25, 0.5, 1, GEN.sig(rng.uniform(-1, 1), 3)])}
    if kind == 'reach':
        tgt = (pos0 + rng.uniform(0.3, 1.0) * travel) * g_enc
        return {'type': 'reach', 'enc': enc, 'target': to_unit(rng, GEN.Q('AngularPosition', GEN.sig(tgt, 6), 'rad')),
                'brake': to_unit(rng, GEN.Q('Angle', GEN.sig(rng.uniform(0.1, 0.5) * travel * abs(g_enc), 5), 'rad'))}
    if kind == 'startprop':
        tgt = (pos0 + rng.uniform(0.1, 0.6) * travel) * g_enc
        if abs(tgt) < 1e-9:
            tgt = 0.01 * g_enc
        return {'type': 'startprop', 'enc': enc, 'target': to_unit(rng, GEN.Q('AngularPosition', GEN.sig(tgt, 6), 'rad')), 'mult': GEN.sig(rng.uniform(1.05, 3), 4),
                'pwm_min': rng.choice([None, 0.1, 0.3])}
    imax, i0 = GEN.qsi(spec['motor']['imax']), GEN.qsi(spec['motor']['i0'])
    tgt = (pos0 + rng.uniform(0.1, 0.6) * travel) * g_enc
    return {'type': 'startlim', 'enc': enc, 'tach': 0 if (sim or rng.random() < 0.6) else rng.randrange(n_el),
            'target': to_unit(rng, GEN.Q('AngularPosition', GEN.sig(tgt, 6), 'rad')),
            'limit': to_unit(rng, GEN.Q('Current', GEN.sig(i0 + rng.uniform(0.15, 0.9) * (imax - i0), 5), 'A'))}


def reference(spec, nums, r, st):
    """reference outcome of rule r on state st (SI): ('none'|'value'|'near'|'error', value)
    st: t, pos[list per element], speed[list], T_load_motor, T_load_first"""
    q = GEN.qsi
    m = spec['motor']
    Tmax, w0 = q(m['Tmax']), q(m['w0'])
    i0, imax = (q(m['i0']), q(m['imax'])) if m.get('i0') is not None else (None, None)
    if r['type'] == 'const':
        start, dur = q(r['start']), q(r['dur'])
        active, near = RR.constant_pwm_window(st['t'], start, dur)
        if r.get('exact') and st.get('t_raw') is not None and st['t_unit'] == r['start']['u'] and float(st['t_raw']).is_integer():
            tr_ = st['t_raw']
            return ('value', r['value']) if r['start']['v'] <= tr_ <= r['start']['v'] + r['dur']['v'] else ('none', None)
        if near or abs(st['t'] - start) <= 2e-12 * max(SI.FACT['Time'][st['t_unit']], SI.FACT['Time'][r['start']['u']]) or \
                abs(st['t'] - start - dur) <= 2e-12 * max(SI.FACT['Time'][st['t_unit']], SI.FACT['Time'][r['dur']['u']]):
            return ('near', r['value'])
        return ('value', r['value']) if active else ('none', None)
    th = st['pos'][r['enc']]
    tgt = q(r['target'])
    if r['type'] == 'reach':
        thb = q(r['brake'])
        ths = RR.reach_start(tgt, thb, st['T_load_motor'], Tmax, eta_total(nums))
        sc = max(abs(th), abs(ths), abs(thb))
        if abs(th - ths) <= 1e-9 * sc:
            return ('near', RR.reach_value(th, ths, thb))
        return ('value', RR.reach_value(th, ths, thb)) if th >= ths else ('none', None)
    sc = max(abs(th), abs(tgt), 1e-300)
    near = abs(th - tgt) <= 1e-9 * sc or abs(th - tgt) <= 2e-12 * SI.FACT['AngularPosition'][st['pos_unit']]
    inside = th <= tgt
    if r['type'] == 'startprop':
        dmc = RR.pwm_min_candidate(st['T_load_first'], Tmax, eta_total(nums), i0, imax)
        dmin = r['mult'] * dmc
        if dmin == 0:
            if r.get('pwm_min') is None:
                return ('error', 'ValueError')
            dmin = r['pwm_min']
        v = RR.start_prop_value(th, tgt, dmin)
    else:
        w = st['speed'][r['tach']]
        if abs(w) > 1e3 * w0:
            # a drivetrain driven thousands of times beyond its no-load speed (diverging run): the root of the current law cancels
            # catastrophically there, the comparison would judge rounding, not the rule
            return ('skip', None)
        v = RR.limit_current_duty(i0, imax, w0, w, q(r['limit']))
        if v is None:
            return ('skip', None)
    if near:
        return ('near', v)
    return ('value', v) if inside else ('none', None)


def compare(ctx, r, exp, got, exc, st, case, where):
    ctx.count('apply_calls')
    ctx.count('evaluations')
    ctx.count('apply_' + r['type'])
    wit = {'rule': r, 'state': {k: (v if not isinstance(v, list) else v[:12]) for k, v in st.items()}, 'expected': exp, 'got': got, 'exception': exc, 'where': where}
    if exp[0] == 'skip':
        return True
    if exp[0] == 'error':
        if exc != exp[1]:
            ctx.violation('C15:expected-documented-error', wit, case)
            return False
        return True
    if exc:
        ctx.violation('C15:apply-raised', wit, case)
        return False
    if isinstance(got, bool) or not (got is None or isinstance(got, (int, float))):
        ctx.violation('C15:proposal-type', wit, case)
        return False
    if exp[0] == 'near':
        ctx.count('near_threshold')
        if got is None:
            return True
        ok = abs(got - exp[1]) <= 1e-9 * max(abs(exp[1]), 1.0) + 1e-9
        if not ok:
            ctx.violation('C15:value', wit, case)
        return ok
    if exp[0] == 'none':
        ctx.count('zone_closed')
        if got is not None:
            ctx.violation('C15:proposes-outside-its-window', wit, case)
            return False
        return True
    ctx.count('zone_open')
    if got is None:
        ctx.violation('C15:silent-inside-its-window', wit, case)
        return False
    if got != got and exp[1] != exp[1]:
        return True
    tol = 1e-9 * max(abs(exp[1]), 1.0)
    if r['type'] == 'startlim':
        tol = 1e-8 * max(abs(exp[1]), 1.0)          # bisection + square-root cancellation
    if not abs(got - exp[1]) <= tol:
        ctx.violation('C15:value', wit, case)
        return False
    return True


def set_state(b, spec, nums, rng, th_last, w_last, t, t_unit, T_load, t_raw=None):
    un = B.g().un
    pu = rng.choice(SI.units('AngularPosition'))
    su = rng.choice(SI.units('AngularSpeed'))
    pos, spd = [], []
    for k in range(len(b.elements)):
        g = math.prod(nums['r'][k:])
        p = un.AngularPosition(SI.from_si('AngularPosition', th_last * g, pu), pu)
        w = un.AngularSpeed(SI.from_si('AngularSpeed', w_last * g, su), su)
        b.elements[k].angular_position = p
        b.elements[k].angular_speed = w
        pos.append(SI.si(p))
        spd.append(SI.si(w))
    tq = un.Time(SI.from_si('Time', t, t_unit) if t_raw is None else t_raw, t_unit)
    b.pt.update_time(tq)
    lu = rng.choice(SI.units('Torque'))
    lt = un.Torque(SI.from_si('Torque', T_load, lu), lu)
    b.motor.load_torque = lt
    return {'t': SI.si(tq), 't_unit': t_unit, 't_raw': t_raw, 'pos': pos, 'speed': spd, 'pos_unit': pu, 'T_load_motor': SI.si(lt), 'T_load_first': SI.si(lt)}


def direct(ctx, i, rng, case):
    spec = make_model(rng, i)
    kind = ['const', 'reach', 'startprop', 'startlim'][(i // 2) % 4]
    if kind == 'startlim' and (i // 8) % 3 == 0:
        spec['motor']['i0'] = GEN.Q('Current', rng.choice([0, 0.0]), spec['motor']['imax']['u'])          # ideal motor (no-load current exactly 0)
    r = make_rule(rng, spec, kind)
    spec['rules'] = []
    try:
        b = B.build(spec)
        rule = B.make_rule(b, r)
    except Exception as ex:
        ctx.violation('harness:valid-scenario-rejected', {'exception': type(ex).__name__ + ': ' + str(ex)[:200], 'rule': r}, case)
        return
    nums = GEN.chain_numbers(spec)
    q = GEN.qsi
    ref = spec['_ref']
    Tmax = q(spec['motor']['Tmax'])
    if any(e['rel']['type'] == 'worm' and e['type'] == 'wormgear' for e in spec['chain']):
        ctx.count('wheel_master_cases')
    n_el = len(b.elements)
    g_enc = math.prod(nums['r'][r.get('enc', n_el - 1):]) if 'enc' in r else 1.0
    for j in range(40):
        T_load = rng.uniform(-0.6, 0.9) * Tmax if rng.random() < 0.9 else 0.0
        if T_load < 0:
            ctx.count('negative_load_cases')
        # boundary of this rule in terms of the last element's position / time
        t = rng.uniform(0, 2) * ref['dt_si'] * ref['n']
        th_last = q(spec['ic']['pos']) + rng.uniform(-1, 2) * abs(ref['w_out'] * ref['dt_si'] * ref['n'])
        w_last = rng.uniform(-0.3, 1.3) * ref['w_out']
        if kind == 'startlim' and j % 4 == 3:
            w_last = rng.uniform(-1.2, -0.1) * ref['w_out']          # spinning backwards, as fast as it would forwards
        mode = j % 5
        bnd = None
        if kind == 'const':
            s0, d0 = q(r['start']), q(r['dur'])
            bnd = rng.choice([s0, s0 + d0])
            if mode == 0:
                t = bnd
            elif mode == 1:
                t = math.nextafter(bnd, rng.choice([-1, 1]) * math.inf)
            elif mode == 2:
                t = bnd * (1 + rng.uniform(-0.1, 0.1)) + rng.uniform(-0.05, 0.05) * d0
            t = max(t, 0.0)
        else:
            tgt_last = q(r['target']) / g_enc
            if kind == 'reach':
                thb_last = q(r['brake']) / abs(g_enc)
                bnd_enc = RR.reach_start(q(r['target']), q(r['brake']), T_load, Tmax, eta_total(nums))
                bnd = bnd_enc / g_enc
            else:
                bnd = tgt_last
            if mode == 0:
                th_last = bnd
            elif mode == 1:
                th_last = math.nextafter(bnd, rng.choice([-1, 1]) * math.inf)
            elif mode == 2:
                th_last = bnd + rng.uniform(-0.1, 0.1) * max(abs(bnd), abs(ref['w_out'] * ref['dt_si'] * ref['n']))
        if mode in (0, 1, 2):
            ctx.count('boundary_states')
        tu = rng.choice(GEN.time_units_for(ref['dt_si']))
        t_raw = None
        if kind == 'const' and r.get('exact') and mode in (0, 1, 3):
            tu = r['start']['u']
            t_raw = float(rng.choice([r['start']['v'], r['start']['v'] + r['dur']['v'], r['start']['v'] - 1, r['start']['v'] + r['dur']['v'] + 1,
                                      r['start']['v'] + rng.randint(0, int(r['dur']['v']))]))
            t_raw = max(t_raw, 0.0)
            if t_raw in (r['start']['v'], r['start']['v'] + r['dur']['v']):
                ctx.count('exact_edge_states')
        st = set_state(b, spec, nums, rng, th_last, w_last, t, tu, T_load, t_raw=t_raw)
        exp = reference(spec, nums, r, st)
        try:
            got, exc = rule.apply(), None
        except Exception as ex:
            got, exc = None, type(ex).__name__
        if not compare(ctx, r, exp, got, exc, st, case, 'direct'):
            return
        if mode in (0, 1, 2):
            ctx.seen('nontrivial', f'{kind}|{exp[0]}|{SC.topo_signature(spec)}')
    if len(ctx.samples) < 3:
        ctx.sample({'rule': r, 'last_state': {k: (v if not isinstance(v, list) else v[:4]) for k, v in st.items()}, 'reference': exp, 'library_proposal': got})


def simulate(ctx, i, rng, case):
    kind = ['startlim', 'reach', 'startprop', 'const', 'startlim', 'mix'][(i // 2) % 6]
    lock = kind == 'const' and (i // 12) % 2 == 0
    spec = make_model(rng, i, lock=lock)
    if lock:
        ctx.count('simulations_of_self_locking_chains')
    rules = []
    if kind == 'mix':
        # start-up rule then braking rule: windows are disjoint by construction (start target below braking start)
        a = make_rule(rng, spec, rng.choice(['startprop', 'startlim']), sim=True)
        rules = [a]
    else:
        rules = [make_rule(rng, spec, kind, sim=True)]
    spec['rules'] = rules
    rerun = rng.random() < 0.35
    if rerun:
        # rules are long-lived objects: the same ones are used for a second simulation after reset
        run0 = spec['schedule'][0]
        spec['schedule'] = [run0, {'op': 'reset'}, {'op': 'reapply'}, dict(run0)]
        if rng.random() < 0.5:
            # ... under another load function (what a rule derived from the first history's load must not survive)
            l2 = dict(spec['load'], A=GEN.sig(spec['load']['A'] * 0.4 + 0.15 * spec['_ref']['T_out'], 4))
            spec['schedule'].insert(3, {'op': 'setload', 'load': l2})
    try:
        b = B.build(spec)
    except Exception as ex:
        ctx.violation('harness:valid-scenario-rejected', {'exception': type(ex).__name__ + ': ' + str(ex)[:200], 'rules': rules}, case)
        return
    runs = B.run_schedule(b)
    tr = B.extract(b, raw=True)
    if rerun and getattr(b, 'rule_log_mark', None) is not None:
        ctx.count('simulations_after_reset_with_the_same_rules')
        b.rule_log = b.rule_log[b.rule_log_mark:]
    ctx.count('simulations')
    nums = GEN.chain_numbers(spec)
    if any(e['rel']['type'] == 'worm' and e['type'] == 'wormgear' for e in spec['chain']):
        ctx.count('wheel_master_cases')
    if runs and runs[0]['exc']:
        # only the documented "Missing 'pwm_min'" error may end a controlled run here
        if not (runs[0]['exc'][0] == 'ValueError' and 'pwm_min' in runs[0]['exc'][1]):
            ctx.violation('C15:controlled-run-raised', {'exception': runs[0]['exc'], 'rules': rules}, case)
            return
    nr = len(rules)
    M = tr.els[0]['vars']
    q = GEN.qsi
    m = spec['motor']
    i0, imax = q(m['i0']), q(m['imax'])
    crossed = set()
    by_instant = {}
    for ent in b.rule_log:
        by_instant.setdefault(ent[0] - 1, []).append(ent)
    n_rec = len(M['load torque'])
    if nr and not (runs and runs[0]['exc']):
        missing = [k for k in range(n_rec) if len(by_instant.get(k, ())) < nr]
        ctx.count('instants_checked_for_a_rule_evaluation', n_rec)
        if missing:
            # a rule's window is a statement about every instant: an instant at which the rule was never asked cannot follow it
            ctx.violation('C15:instant-without-rule-evaluation', {'instants': missing[:5], 'recorded_instants': n_rec, 'rules': rules,
                                                                  'held_there': [M['angular speed'][k] == 0 for k in missing[:5]]}, case)
            return
    for k in sorted(by_instant):
        if len(by_instant[k]) < nr:
            continue
        rnd = by_instant[k][-nr:]          # the last complete round at this instant is the deciding one
        if k >= len(M['load torque']):
            break
        if M['load torque'][k] < 0:
            ctx.count('negative_load_cases')
        pu = tr.els[0]['units']['angular position'][k][1]
        st = {'t': tr.time[k], 't_unit': tr.time_units[k], 'pos': [e['vars']['angular position'][k] for e in tr.els], 'pos_unit': pu,
              'speed': [e['vars']['angular speed'][k] for e in tr.els], 'T_load_motor': M['load torque'][k], 'T_load_first': M['load torque'][0]}
        for r, (_, _, got) in zip(rules, rnd):
            exp = reference(spec, nums, r, st)
            ctx.count('sim_proposals_checked')
            if not compare(ctx, r, exp, got, None, dict(st, instant=k), case, 'simulation'):
                return
            crossed.add((r['type'], exp[0]))
            if nr == 1 and k < len(tr.pwm) and (got is None or got == got):
                # consequence: with a single rule the recorded duty cycle IS its value (clipped), or 1 outside its window
                want = 1 if got is None else min(max(got, -1), 1)
                ctx.count('recorded_duty_cycle_checks')
                if tr.pwm[k] != want:
                    ctx.violation('C15:recorded-duty-cycle-is-not-the-rule-value', {'instant': k, 'rule_value': got, 'recorded_pwm': tr.pwm[k], 'rule': r}, case)
                    return
            # consequence: limit current reached while StartLimitCurrent is the applied, unclipped rule
            if r['type'] == 'startlim' and got is not None and got == got and r['tach'] == 0 and nr == 1:
                if max((i0 / imax) * (1 + 1e-6), 1e-6) < got <= 1 and tr.pwm[k] == got:
                    ilim = q(r['limit'])
                    cur = M['electric current'][k]
                    ctx.count('limit_current_instants')
                    s_ = abs(M['angular speed'][k] / q(m['w0']))
                    # conditioning of the root: d i / d D = imax - i0 s / D^2, and the root itself carries rounding ~ ulp(s + e)
                    if abs(cur - ilim) > 1e-9 * imax * (1 + s_) * (1 + (i0 / imax) * s_ / got ** 2):
                        ctx.violation('C15:limit-current-not-reached', {'instant': k, 'limit': ilim, 'recorded_current': cur, 'pwm': got, 'motor_speed': M['angular speed'][k], 'rule': r}, case)
                        return
    kinds = {t for t, _ in crossed}
    for t in kinds:
        if ('value' in {z for tt, z in crossed if tt == t}) and ('none' in {z for tt, z in crossed if tt == t}):
            ctx.seen('nontrivial', f'sim|{t}|{SC.topo_signature(spec)}')


def one(ctx, i):
    rng = ctx.rng('case', i)
    case = {'kind': 'c15', 'index': i}
    if i % 2 == 0:
        direct(ctx, i, rng, case)
    else:
        simulate(ctx, i, rng, case)


def shard(ctx):
    for i in ctx.my_cases(n_cases(ctx.tier)):
        one(ctx, i)


def replay(ctx, case):
    one(ctx, case['index'])
