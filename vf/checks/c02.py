"""C02 -- torque propagation and balance along the chain at every recorded instant."""
from ..sim import mon as MON
from . import simcommon as SC

PROPERTY = 'C02'
RULE = ('same simulation workload as C01 (random chains, efficiencies in (0,1] incl. 1 and 0.05, loads constant / speed- / position- / '
        'time-dependent of either sign, duty-cycle histories from ConstantPWM windows); per instant: (a) motor driving torque vs the '
        'reference characteristic at the recorded speed and duty cycle, (b) driving torque propagation, (c) recorded load of the loaded '
        'element vs the load law re-evaluated on the recorded position/speed/time, (d) load propagation, (e) net = driving - load. '
        'non-trivial = some mating with efficiency < 1, a state- or time-dependent load and >= 5 instants; distinct by topology x load shape x schedule')
ASSUMPTIONS = ['reference motor law in vf/ref/motor.py; efficiencies/ratios recomputed by vf/ref/relations.py',
               '1e-9 relative, with cancellation floors for net torque and the load law']
HEADLINE = ['scenarios', 'instants', 'clause_a', 'clause_bd', 'clause_c', 'clause_e', 'instants_nondefault_pwm', 'near_threshold', 'failed_runs']


def floors(tier):
    return {'instants': 5000, 'clause_a': 5000, 'clause_bd': 20000, 'clause_c': 5000, 'clause_e': 10000,
            'instants_nondefault_pwm': 300, 'set:load_shapes': 6, 'set:nontrivial': 20}


def n_cases(tier):
    return 480 if tier == 'quick' else 16000


def load_shape(spec):
    l = spec['load']
    return ''.join(c for c, on in (('A', l['A']), ('B', l['B']), ('C', l['C']), ('S', l['S']), ('T', l['step_t'] is not None)) if on)


def nontrivial(spec, ana):
    l = spec['load']
    return ana.N >= 5 and any(e < 1 for e in ana.nums['eta']) and (l['B'] or l['C'] or l['S'] or l['step_t'] is not None)


def one(ctx, spec, case):
    ctx.seen('load_shapes', load_shape(spec))
    SC.simulate_and_monitor(ctx, spec, case, [MON.check_c02], nontrivial=nontrivial, key_extra=load_shape(spec))


def shard(ctx):
    for i in ctx.my_cases(n_cases(ctx.tier)):
        spec = SC.general_scenario(ctx.rng('case', i), i, ctx.tier)
        one(ctx, spec, {'kind': 'scenario', 'index': i, 'spec': spec})


def replay(ctx, case):
    one(ctx, case['spec'], case)
