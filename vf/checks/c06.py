"""C06 -- quantity arithmetic is dimensionally sound; subtraction undoes addition (reference-model monitor)."""
import math
import operator
from ..ref import si as SI
from ..ref import dims as DM

PROPERTY = 'C06'
RULE = ('exhaustive over (13 kinds + int + float)^2 x {+,-,*,/} x every unit choice of both operands; 4..7 magnitudes per combination '
        '(both signs where allowed, zero divisors included). A returned result must be of a kind whose dimension vector is the combination of '
        'the operands vectors (plain number only for a zero vector within one family) with SI magnitude = product/quotient/sum/difference at 1e-9; '
        'only TypeError (always), ValueError (sign-constrained kinds, non-positive exact result or factor) and ZeroDivisionError (zero divisor) may be raised; '
        'inverse laws (a+b)-b = a and a-b = -(b-a) whenever both sides are defined. non-trivial = cross-unit or cross-kind; distinct by (kind_a, op, kind_b, unit_a, unit_b)')
ASSUMPTIONS = ['dimension vectors over (kg, m, s, A) with the radian dimensionless (vf/ref/dims.py)', 'magnitudes in 1e-6..1e6 per unit so that nothing overflows']
HEADLINE = ['operations', 'results', 'TypeError', 'ValueError', 'ZeroDivisionError', 'inverse_add_sub', 'inverse_antisym', 'combos']
OPS = {'+': operator.add, '-': operator.sub, '*': operator.mul, '/': operator.truediv}
NUM = ('int', 'float')


def floors(tier):
    return {'set:kind_op_pairs': 15 * 15 * 4 - 16, 'operations': 100000, 'results': 8000, 'TypeError': 50000, 'ValueError': 500, 'ZeroDivisionError': 300,
            'inverse_add_sub': 2000, 'inverse_antisym': 1000}


def operand_space():
    out = [(k, u) for k in SI.KINDS for u in SI.units(k)] + [('int', None), ('float', None)]
    return out


def lib(kind):
    import gearpy.units as U
    return getattr(U, kind)


HIST = [False]
INTS = [False]          # integral magnitudes are handed over as python ints (3 deg, 90 arcmin)


class CopyBroken(Exception):
    """copy.copy / copy.deepcopy of an operand did not yield the same quantity (kind, value, unit)"""


def mk(kind, unit, v):
    if INTS[0] and kind not in NUM and float(v).is_integer() and abs(v) < 1e15:
        v = int(v)
    if HIST[0] == 2 and kind not in NUM:
        # the caller took copies in every unit beforehand and went on converting THOSE in place: the operand itself
        # was never touched, so it must still behave as (v, unit)
        us = SI.units(kind)
        q = lib(kind)(v, unit)
        for i, u in enumerate(us):
            try:
                c = q.to(u)
                if c is not q:
                    c.to(us[(i + 1) % len(us)], inplace=True)
            except ValueError:
                pass
        return q
    if HIST[0] == 3 and kind not in NUM:
        # the operand is a COPY (copy.copy / copy.deepcopy) of a quantity that was converted in place after the copy was taken
        import copy as _copy
        us = SI.units(kind)
        q = lib(kind)(v, unit)
        c = _copy.deepcopy(q) if len(unit) % 2 else _copy.copy(q)
        try:
            q.to(us[(us.index(unit) + 1) % len(us)], inplace=True)
        except ValueError:
            pass
        if type(c) is not lib(kind) or c.unit != unit or c.value != v:
            raise CopyBroken(f'copy of {kind}({v!r}, {unit!r}) is {type(c).__name__}({c.value!r}, {c.unit!r})')
        return c
    if HIST[0] and kind not in NUM:
        us = SI.units(kind)
        u0 = us[(us.index(unit) + 1) % len(us)]
        if u0 != unit:
            try:
                q = lib(kind)(SI.convert(kind, v, unit, u0), u0)
                q.to(unit, inplace=True)
                return q
            except ValueError:
                pass
    if kind == 'int':
        return int(round(v)) if abs(v) >= 1 else (0 if v == 0 else (1 if v > 0 else -1))
    if kind == 'float':
        return float(v)
    return lib(kind)(v, unit)


def si_of(kind, unit, v):
    if kind in NUM:
        return mk(kind, unit, v)
    return v * SI.FACT[kind][unit]


def values_for(rng, kind, tier):
    """magnitudes for one operand; negatives (where the kind allows) come early so that even the 4-pair quick
    tier combines a negative left operand with a positive right one and vice versa"""
    sc = SI.SIGN.get(kind)
    vs = [float(f'{10 ** rng.uniform(-3, 4):.4g}') for _ in range(2 if tier == 'quick' else 5)]
    if sc is None or kind in NUM:
        out = [vs[0], -vs[1], 3.0, -2.0, 0.5] + vs[2:] + [-vs[0]]
    else:
        out = [vs[0], vs[1], 3.0, 0.5] + vs[2:]
    if sc != '>0':
        out.append(0.0)
    return out


def judge(ctx, ka, ua, va, op, kb, ub, vb, case, want_result=False):
    """perform a op b on real objects; returns ('ok', result_si, result_kind) / ('exc', name) / ('bad',)"""
    try:
        a, b = mk(ka, ua, va), mk(kb, ub, vb)
    except CopyBroken as ex:
        ctx.violation('C06:copy-of-an-operand-is-another-quantity', {'a': [ka, va, ua], 'b': [kb, vb, ub], 'what': str(ex)}, case)
        return ('bad',)
    sa, sb = si_of(ka, ua, va), si_of(kb, ub, vb)
    if ka in NUM:
        sa = a
    if kb in NUM:
        sb = b
    ctx.count('operations')
    ctx.count('evaluations')
    wit = {'a': [ka, va, ua], 'op': op, 'b': [kb, vb, ub]}
    try:
        r = OPS[op](a, b)
    except TypeError:
        ctx.count('TypeError')
        return ('exc', 'TypeError')
    except ZeroDivisionError:
        ctx.count('ZeroDivisionError')
        if op == '/' and sb == 0:
            return ('exc', 'ZeroDivisionError')
        ctx.violation('C06:unexpected-ZeroDivisionError', wit, case)
        return ('bad',)
    except ValueError as ex:
        ctx.count('ValueError')
        exact = exact_result(sa, op, sb)
        ok = False
        # (A) scaling a sign-constrained quantity by a non-positive number
        if (ka in NUM and sa <= 0 and SI.SIGN.get(kb)) or (kb in NUM and sb <= 0 and SI.SIGN.get(ka)):
            ok = True
        # (B) documented intermediate construction in the LEFT operand's (sign-constrained) class for sums / differences
        if op in '+-' and ka not in NUM and kb not in NUM and SI.SIGN.get(ka) and exact is not None and not valid_for(ka, exact):
            ok = True
        # (C) every kind the result could legitimately have is sign-constrained and the exact result violates it
        rk_all = [k for k in result_kinds(ka, op, kb) if k != 'number']
        if rk_all and exact is not None and all(SI.SIGN.get(k) and not valid_for(k, exact) for k in rk_all):
            ok = True
        if ok:
            return ('exc', 'ValueError')
        wit['exception'] = 'ValueError: ' + str(ex)[:120]
        ctx.violation('C06:unexpected-ValueError', wit, case)
        return ('bad',)
    except Exception as ex:
        wit['exception'] = type(ex).__name__ + ': ' + str(ex)[:120]
        ctx.violation('C06:unexpected-exception-class', wit, case)
        return ('bad',)
    ctx.count('results')
    # a result was returned: kind and magnitude must be what dimensional analysis dictates
    allowed = result_kinds(ka, op, kb)
    exact = exact_result(sa, op, sb)
    if isinstance(r, bool) or r is None or r is NotImplemented:
        ctx.violation('C06:result-not-a-quantity', dict(wit, result=repr(r)), case)
        return ('bad',)
    if isinstance(r, (int, float)):
        rk, rs = 'number', r
    else:
        rk = type(r).__name__
        if rk not in SI.TABLE or r.unit not in SI.TABLE[rk]:
            ctx.violation('C06:result-unknown-kind-or-unit', dict(wit, result=repr(r)), case)
            return ('bad',)
        rs = r.value * SI.FACT[rk][r.unit]
    wit['result'] = [rk, getattr(r, 'value', r), getattr(r, 'unit', None)]
    wit['expected_kinds'] = sorted(allowed)
    wit['expected_si'] = exact
    if rk not in allowed:
        if is_d10(ka, op, kb, sa, sb, rs, rk):
            ctx.known_finding(d10_id(ka), wit, case)
            return ('d10', rs, rk)
        ctx.violation('C06:wrong-kind', wit, case)
        return ('bad',)
    scale = max(abs(sa), abs(sb)) if op in '+-' else abs(exact)
    if not (abs(rs - exact) <= 1e-9 * scale + 1e-300):
        if is_d10(ka, op, kb, sa, sb, rs, rk):
            ctx.known_finding(d10_id(ka), wit, case)
            return ('d10', rs, rk)
        ctx.violation('C06:wrong-magnitude', wit, case)
        return ('bad',)
    sc = SI.SIGN.get(rk)
    if (sc == '>0' and not rs > 0) or (sc == '>=0' and not rs >= 0):
        ctx.violation('C06:sign-constraint-broken-by-result', wit, case)
        return ('bad',)
    return ('ok', rs, rk, r)


def valid_for(kind, x):
    sc = SI.SIGN.get(kind)
    return x > 0 if sc == '>0' else (x >= 0 if sc == '>=0' else True)


def is_d10(ka, op, kb, sa, sb, rs, rk):
    """defect D10: Angle - AngularPosition and TimeInterval - Time return the sum"""
    if op != '-' or (ka, kb) not in (('Angle', 'AngularPosition'), ('TimeInterval', 'Time')):
        return False
    return rk == kb and abs(rs - (sa + sb)) <= 1e-12 * max(abs(sa), abs(sb), 1e-300) and sb != 0


def d10_id(ka):
    return 'D10-angle' if ka == 'Angle' else 'D10-timeinterval'


def exact_result(sa, op, sb):
    try:
        return OPS[op](sa, sb)
    except ZeroDivisionError:
        return None


def result_kinds(ka, op, kb):
    """set of acceptable result kinds ('number' for a plain number); empty set = only TypeError is acceptable"""
    na, nb = ka in NUM, kb in NUM
    if na and nb:
        return {'number'}
    if op in '+-':
        if na or nb:
            return set()
        if DM.FAMILY[ka] != DM.FAMILY[kb]:
            return set()
        if ka == kb:
            return {ka}                  # "same-kind sum/difference -> that kind"
        return {k for k in DM.VEC if DM.FAMILY[k] == DM.FAMILY[ka]}
    va = DM.ZERO if na else DM.VEC[ka]
    vb = DM.ZERO if nb else DM.VEC[kb]
    vec = DM.add(va, vb) if op == '*' else DM.sub(va, vb)
    out = set(DM.kinds_with(vec))
    if na != nb:
        # quantity scaled by a number: stays in its family (covered by the vector rule); number/quantity: inverse vector
        pass
    if vec == DM.ZERO and not na and not nb and DM.FAMILY[ka] == DM.FAMILY[kb] and op == '/':
        out.add('number')
    if vec == DM.ZERO and (na or nb):
        # radians are dimensionless: number*angle is an angle (vector rule); a bare number is not dictated
        pass
    return out


def combos():
    sp = operand_space()
    return [(a, op, b) for a in sp for op in OPS for b in sp if not (a[0] in NUM and b[0] in NUM)]


def run_combo(ctx, idx, A, op, Bq, tier, matrix=None):
    (ka, ua), (kb, ub) = A, Bq
    rng = ctx.rng('combo', idx)
    case = {'kind': 'combo', 'index': idx, 'a': [ka, ua], 'op': op, 'b': [kb, ub]}
    ctx.seen('kind_op_pairs', f'{ka}{op}{kb}')
    ctx.count('combos')
    vas, vbs = values_for(rng, ka, tier), values_for(rng, kb, tier)
    n = 4 if tier == 'quick' else 9
    pairs = [(vas[i % len(vas)], vbs[(i * 3 + 1) % len(vbs)]) for i in range(n)]
    if op in '+-':
        pairs.append((vas[1], vbs[0] * 1e-3))          # a (possibly negative) left operand dominating a small right one
    if op == '/' and SI.SIGN.get(kb) != '>0':
        pairs.append((vas[0], 0.0))
    if op == '*' and (ka in NUM) != (kb in NUM):
        # a tiny but positive (and a huge) plain factor: legal for every kind, sign-constrained ones included
        pairs.append((5e-13, vbs[0]) if ka == 'float' else ((vas[0], 5e-13) if kb == 'float' else (vas[0], vbs[0])))
        pairs.append((3e11, vbs[0]) if ka == 'float' else ((vas[0], 3e11) if kb == 'float' else (vas[0], vbs[0])))
    if op == '/' and kb == 'float':
        pairs.append((vas[0], 4e12))
    if op in '+-' and (ka in NUM) != (kb in NUM):
        # a plain zero next to a quantity: no kind is dictated for number +- quantity, whatever the number
        pairs.append((0.0, vbs[0]) if ka in NUM else (vas[0], 0.0))
    if op in '+-' and ka not in NUM and kb not in NUM:
        if SI.SIGN.get(ka) != '>0':
            pairs.append((0.0, vbs[0]))           # a left operand of exactly zero
        pairs.append((5e-13, 1e-13))          # magnitudes next to the library's comparison tolerance: arithmetic has none
        pairs.append((vas[1], vbs[1] * 1e3))
        pairs.append((vas[0], vas[0]))
    outcomes = set()
    for n_pair, (va, vb) in enumerate(pairs):
        # every other pair uses operands that went through an in-place conversion first (object history)
        HIST[0] = (0, 1, 3, 2)[n_pair % 4]
        INTS[0] = n_pair % 3 == 2
        if HIST[0] == 1:
            ctx.count('operations_on_converted_objects')
        if HIST[0] == 2:
            ctx.count('operations_on_operands_whose_copies_were_converted')
        if HIST[0] == 3:
            ctx.count('operations_on_copied_operands')
        res = judge(ctx, ka, ua, va, op, kb, ub, vb, case)
        outcomes.add(res[1] if res[0] == 'exc' else ('result:' + res[2] if res[0] in ('ok', 'd10') else 'bad'))
        if res[0] == 'ok' and (ka != kb or ua != ub):
            ctx.seen('nontrivial', f'{ka}:{ua}{op}{kb}:{ub}')
        # inverse laws
        if res[0] in ('ok', 'd10') and op == '+' and ka not in NUM and kb not in NUM:
            s = OPS['+'](mk(ka, ua, va), mk(kb, ub, vb))
            try:
                back = s - mk(kb, ub, vb)
            except (TypeError, ValueError):
                back = None
            if back is not None:
                ctx.count('inverse_add_sub')
                bs = back.value * SI.FACT[type(back).__name__][back.unit]
                sa_, sb_ = si_of(ka, ua, va), si_of(kb, ub, vb)
                if DM.FAMILY.get(type(back).__name__) != DM.FAMILY[ka] or abs(bs - sa_) > 1e-9 * max(abs(sa_), abs(sb_)) + 1e-300:
                    wit = {'law': '(a+b)-b == a', 'a': [ka, va, ua], 'b': [kb, vb, ub], 'got': [type(back).__name__, back.value, back.unit]}
                    sk = type(s).__name__
                    # (the known finding D10 never reaches this law on the tree it was found on: whatever fails here is new)
                    ctx.violation('C06:inverse-law-add-sub', dict(wit, kind_of_the_sum=sk), case)
        if res[0] == 'ok' and op in '+-' and ka not in NUM and kb not in NUM:
            # augmented assignment (x += y, x -= y) is the same operation; the object it leaves bound to x must BE that result for
            # everything that follows (its public value AND the arithmetic that reads it)
            x_, y_ = mk(ka, ua, va), mk(kb, ub, vb)
            try:
                if op == '+':
                    x_ += y_
                else:
                    x_ -= y_
                twice = x_ * 2
            except (TypeError, ValueError):
                x_ = None
            if x_ is not None and not isinstance(x_, (int, float)):
                ctx.count('augmented_assignments')
                kx = type(x_).__name__
                xs = x_.value * SI.FACT[kx][x_.unit] if kx in SI.FACT and x_.unit in SI.FACT[kx] else float('nan')
                kt = type(twice).__name__
                ts = twice.value * SI.FACT[kt][twice.unit] if kt in SI.FACT and getattr(twice, 'unit', None) in SI.FACT.get(kt, {}) else float('nan')
                sc_ = max(abs(si_of(ka, ua, va)), abs(si_of(kb, ub, vb)))
                if not (abs(xs - res[1]) <= 1e-9 * sc_ + 1e-300 and abs(ts - 2 * res[1]) <= 2e-9 * sc_ + 1e-300):
                    ctx.violation('C06:augmented-assignment-differs-from-the-operation', {'a': [ka, va, ua], 'op': op + '=', 'b': [kb, vb, ub], 'plain_result_si': res[1],
                                                                                         'after_augmented_si': xs, 'then_times_2_si': ts, 'kind': kx}, case)
        if res[0] in ('ok', 'd10') and op == '-' and ka not in NUM and kb not in NUM:
            try:
                other = -(mk(kb, ub, vb) - mk(ka, ua, va))
            except (TypeError, ValueError):
                other = None
            if other is not None:
                ctx.count('inverse_antisym')
                os_ = other.value * SI.FACT[type(other).__name__][other.unit]
                sa_, sb_ = si_of(ka, ua, va), si_of(kb, ub, vb)
                if abs(os_ - res[1]) > 1e-9 * max(abs(sa_), abs(sb_)) + 1e-300:
                    wit = {'law': 'a-b == -(b-a)', 'a': [ka, va, ua], 'b': [kb, vb, ub], 'a-b': res[1], '-(b-a)': os_}
                    if (res[0] == 'd10' or is_d10(kb, '-', ka, sb_, sa_, -os_, type(other).__name__)) and \
                            {ka, kb} in ({'Angle', 'AngularPosition'}, {'Time', 'TimeInterval'}):
                        # D10 is keyed by its inputs: the difference of an Angle and an AngularPosition / a TimeInterval and a Time
                        ctx.known_finding(d10_id(ka if res[0] == 'd10' else kb), wit, case)
                    else:
                        ctx.violation('C06:inverse-law-antisymmetry', wit, case)
    HIST[0] = False
    INTS[0] = False
    for o in outcomes:
        ctx.seen('matrix', f'{ka}{op}{kb}=>{o}')


def shard(ctx):
    cs = combos()
    for i in ctx.my_cases(len(cs)):
        A, op, Bq = cs[i]
        run_combo(ctx, i, A, op, Bq, ctx.tier)
    if ctx.shard == 0:
        T, L = lib('Torque')(3, 'kgfcm'), lib('Length')(2, 'mm')
        r = T / L
        ctx.sample({'example': 'Torque(3,"kgfcm")/Length(2,"mm")', 'result': [type(r).__name__, r.value, r.unit], 'reference_si_N': 3 * SI.FACT['Torque']['kgfcm'] / 2e-3})


def finalize(cov, merged):
    mat = {}
    for e in merged['sets'].get('matrix', ()):
        k, o = e.split('=>')
        mat.setdefault(k, []).append(o)
    acc = sorted(k for k, v in mat.items() if any(x.startswith('result') for x in v))
    cov['accepted_combinations'] = acc
    cov['exhaustive'] = len(merged['sets'].get('kind_op_pairs', ())) >= 15 * 15 * 4 - 16
    cov['exhaustive_dimension'] = 'kinds x operators x unit choices of both operands (magnitudes sampled)'


def replay(ctx, case):
    run_combo(ctx, case['index'], tuple(case['a']), case['op'], tuple(case['b']), ctx.tier)
