"""C04 -- trajectories converge to the closed-form solution as dt shrinks (bounded restatement, differential monitor)."""
import copy
import math
from ..ref import si as SI
from ..ref import motor as RM
from ..ref import ode as ODE
from ..sim import gen as GEN, build as B
from . import simcommon as SC

PROPERTY = 'C04'
RULE = ('random non-self-locking chains (ratios, efficiencies, inertias in any unit), motor constants with and without current data, constant loads below and '
        'above stall of either sign, initial speeds of either sign, constant duty cycle D (positive and negative, preset on the motor or through a ConstantPWM '
        'covering the horizon), horizons of 3..6 time constants; each scenario simulated on the ladder k*dt in {0.2, 0.1, 0.05, 0.025} (thorough adds 0.0125). '
        'Checked at every recorded instant: |w_k - w(t_k)| <= 0.25 (k dt) |w_init - w_inf| and |theta_k - theta(t_k)| <= 1.25 dt |w_init - w_inf|; and the maximum '
        'error ratio between successive step sizes lies in [1.7, 2.4] when the finer error exceeds 1e-9 relative. '
        'non-trivial = |w_init - w_inf| > 0 and >= 3 step sizes; distinct by topology x (load above/below stall) x (current data) x sign(D)')
ASSUMPTIONS = ['the limit dt -> 0 itself is out of reach of a finite run: what is established is first-order agreement on the explored ladder',
               'closed form: w\' = a - k w with k = Tmax(D) E G / (D w0 J_eq), a = (Tmax(D) E - T_L) / J_eq, G = prod r_i, E = prod eta_i r_i (vf/ref/ode.py)',
               'scenarios in which self-locking could engage are not generated (C13 covers them)']
HEADLINE = ['scenarios', 'runs', 'instants', 'order_ratios_checked', 'above_stall', 'below_stall', 'negative_duty', 'with_current_data', 'without_current_data', 'via_constant_pwm']
LADDER = [0.2, 0.1, 0.05, 0.025]


def floors(tier):
    return {'scenarios': 48, 'runs': 190, 'instants': 15000, 'order_ratios_checked': 100, 'above_stall': 8, 'below_stall': 20, 'negative_duty': 10, 'with_current_data': 15,
            'without_current_data': 8, 'via_constant_pwm': 10, 'ladder_on_one_powertrain': 10, 'set:nontrivial': 20}


def n_cases(tier):
    return 64 if tier == 'quick' else 5000


def one(ctx, i):
    rng = ctx.rng('case', i)
    case = {'kind': 'c04', 'index': i}
    prof = dict(p_continue=0.0, p_reset=0.0, p_selflock=0.0, p_speed_load=0.0, p_pos_load=0.0, p_time_load=0.0, p_pwm_preset=0.0, p_ic_zero=0.3, p_struct=0.2,
                p_overload=0.3, p_big_overload=0.0, max_stages=3 if ctx.tier == 'quick' else 5)
    spec = GEN.gen_scenario(rng, prof, force_selflock=False)
    spec['load'].update(B=0.0, C=0.0, S=0.0, W=0.0, step_t=None, step_A=0.0, P=0.0)
    nums = GEN.chain_numbers(spec)
    q = GEN.qsi
    m = spec['motor']
    Tmax, w0 = q(m['Tmax']), q(m['w0'])
    cur = m['i0'] is not None
    i0, imax = (q(m['i0']), q(m['imax'])) if cur else (None, None)
    # duty cycle
    if cur:
        bnd = i0 / imax
        D = rng.choice([1, 1, -1, GEN.sig(rng.uniform(bnd + 0.1 * (1 - bnd), 1), 3), -GEN.sig(rng.uniform(bnd + 0.1 * (1 - bnd), 1), 3)])
        TD = RM.tmax_d(Tmax, i0, imax, D)
    else:
        D = rng.choice([1, 1, 0.5, -1])           # without current data the characteristic does not depend on D
        TD = Tmax
    Deff = D if cur else 1
    k = TD * nums['E'] * nums['G'] / (Deff * w0 * nums['J_eq'])
    TL = spec['load']['A']
    a = (TD * nums['E'] - TL) / nums['J_eq']
    if not (k > 0) or not math.isfinite(k):
        ctx.count('skipped')
        return
    winf = a / k
    w_init, th0 = q(spec['ic']['speed']), q(spec['ic']['pos'])
    horizon = rng.uniform(3, 6) / k
    n0 = max(8, round(horizon * k / LADDER[0]))
    via_rule = i % 3 == 0
    reuse = i % 2 == 1 and not via_rule        # rules hold the powertrain they were built for: the reuse study runs without a controller
    ladder = LADDER + ([0.0125] if ctx.tier == 'thorough' else [])
    errs_w, errs_th = [], []
    tu = spec['schedule'][0]['dt']['u']
    for j, kdt in enumerate(ladder):
        sp = copy.deepcopy(spec)
        dt_si = LADDER[0] / k / (2 ** j)
        n = n0 * 2 ** j
        dtq = GEN.Q('TimeInterval', SI.from_si('TimeInterval', dt_si, tu), tu)
        Tq = GEN.Q('TimeInterval', SI.from_si('TimeInterval', dt_si * n, tu), tu)
        sp['schedule'] = [{'op': 'run', 'dt': dtq, 'T': Tq}]
        if i % 8 == 5:
            # the study is run in two parts: a quarter of the horizon with this step, the rest CONTINUED with half the step
            # (written in another time unit); the first-order bound is the one of the coarser step
            n1 = max(2, n // 4)
            u2_ = rng.choice(GEN.time_units_for(dt_si / 2))
            sp['schedule'] = [{'op': 'run', 'dt': dtq, 'T': GEN.Q('TimeInterval', SI.from_si('TimeInterval', dt_si * n1, tu), tu)},
                              {'op': 'run', 'dt': GEN.Q('TimeInterval', SI.from_si('TimeInterval', dt_si / 2, u2_), u2_),
                               'T': GEN.Q('TimeInterval', SI.from_si('TimeInterval', dt_si / 2 * 2 * (n - n1), u2_), u2_)}]
            if j == 0:
                ctx.count('studies_continued_with_a_finer_step')
        sp['rules'] = []
        if via_rule:
            sp['rules'] = [{'type': 'const', 'start': GEN.Q('Time', 0.0, 'sec'), 'dur': GEN.Q('TimeInterval', 10 * dt_si * n, 'sec'), 'value': D}]
            sp['ic']['pwm'] = D          # the lock check / first instant read the duty cycle before control: keep it consistent
        else:
            sp['ic']['pwm'] = D
        try:
            if reuse and j > 0:
                # the step-size study on ONE powertrain: reset, re-apply the initial conditions, run with the finer step
                b.pt.reset()
                b.spec = sp
                B.apply_ic(b)
                if rng.random() < 0.5:
                    b.solver = B.g().Solver(powertrain=b.pt)
            elif reuse and i % 4 == 1:
                # the powertrain, its solver and all objects served an earlier study with ANOTHER load function first
                sp0 = copy.deepcopy(sp)
                sp0['load']['A'] = GEN.sig(-0.7 * TL + 0.4 * TD * nums['E'], 4)
                sp0['schedule'] = [{'op': 'run', 'dt': dtq, 'T': GEN.Q('TimeInterval', SI.from_si('TimeInterval', dt_si * 5, tu), tu)}]
                b = B.build(sp0)
                B.run_schedule(b)
                b.pt.reset()
                b.spec = sp
                B.apply_ic(b)
                b.cur_load = sp['load']
                b.last.external_torque = B.make_load(b, sp['load'])
                ctx.count('load_function_replaced_before_the_study')
            else:
                b = B.build(sp)
                if i % 4 == 2:
                    # ANOTHER design (same part names, other teeth numbers and inertias) is built, with its solver, after this
                    # one and stays alive while this one runs
                    if j == 0:
                        decoy_spec = GEN.gen_scenario(ctx.rng('decoy', i), prof, force_selflock=False)
                        ctx.count('studies_with_another_design_alive')
                    decoy = B.build(decoy_spec, hooks=False)
            runs = B.run_schedule(b)
        except Exception as ex:
            ctx.violation('harness:valid-scenario-rejected', {'exception': type(ex).__name__ + ': ' + str(ex)[:200]}, case)
            return
        if runs[0]['exc']:
            ctx.violation('C04:run-raised', {'exception': runs[0]['exc']}, case)
            return
        tr = B.extract(b)
        ctx.count('runs')
        L = tr.els[-1]['vars']
        scale = abs(w_init - winf)
        ew = eth = 0.0
        dts = q(dtq)
        for kk in range(tr.n):
            t = tr.time[kk]
            dw = abs(L['angular speed'][kk] - ODE.speed(t, w_init, a, k))
            dth = abs(L['angular position'][kk] - ODE.position(t, th0, w_init, a, k))
            ew, eth = max(ew, dw), max(eth, dth)
            ctx.count('instants')
            if dw > 0.25 * (k * dts) * scale + 1e-9 * max(abs(winf), abs(w_init)) or \
                    dth > 1.25 * dts * scale + 1e-9 * (abs(th0) + abs(winf) * t + scale / k):
                ctx.violation('C04:first-order-bound', {'instant': kk, 'time': t, 'k_dt': k * dts, 'speed': L['angular speed'][kk], 'closed_form_speed': ODE.speed(t, w_init, a, k),
                                                        'position': L['angular position'][kk], 'closed_form_position': ODE.position(t, th0, w_init, a, k),
                                                        'speed_error_normalised': dw / (k * dts * scale) if scale else None, 'position_error_normalised': dth / (dts * scale) if scale else None,
                                                        'duty_cycle': D, 'rate_constant': k, 'w_inf': winf, 'w_init': w_init, 'topology': SC.topo_signature(spec), 'current_data': cur}, case)
                return
        errs_w.append(ew)
        errs_th.append(eth)
        if scale:
            ctx.max('worst_speed_error_over_kdt_scale', ew / (k * dts * scale))
            ctx.max('worst_position_error_over_dt_scale', eth / (dts * scale))
    ctx.count('scenarios')
    ctx.count('evaluations')
    ctx.count('with_current_data' if cur else 'without_current_data')
    ctx.count('above_stall' if abs(TL) > abs(TD * nums['E']) else 'below_stall')
    if D < 0:
        ctx.count('negative_duty')
    if via_rule:
        ctx.count('via_constant_pwm')
    if reuse:
        ctx.count('ladder_on_one_powertrain')
    scale = abs(w_init - winf)
    for name, errs, sc in (('speed', errs_w, scale), ('position', errs_th, scale / k)):
        for e1, e2 in zip(errs, errs[1:]):
            if sc and e2 > 1e-9 * sc and e2 > 1e-7 * (abs(th0) + abs(winf) / k if name == 'position' else abs(winf) + abs(w_init)):
                ratio = e1 / e2
                ctx.count('order_ratios_checked')
                ctx.max('largest_order_ratio', ratio)
                ctx.max('minus_smallest_order_ratio', -ratio)
                if not (1.7 <= ratio <= 2.4):
                    ctx.violation('C04:error-does-not-halve', {'quantity': name, 'errors_per_step_size': errs, 'ratio': ratio, 'k_dt_ladder': ladder, 'rate_constant': k,
                                                               'topology': SC.topo_signature(spec)}, case)
                    return
    if scale > 0:
        ctx.seen('nontrivial', f'{SC.topo_signature(spec)}|{"above" if abs(TL) > abs(TD * nums["E"]) else "below"}|{cur}|{D > 0}')
    if len(ctx.samples) < 2:
        ctx.sample({'topology': SC.topo_signature(spec), 'duty_cycle': D, 'rate_constant_1_per_s': k, 'w_init': w_init, 'w_inf': winf, 'k_dt_ladder': ladder,
                    'max_speed_error_per_step_size': errs_w, 'max_position_error_per_step_size': errs_th})


def coast(ctx, i):
    """the degenerate member of the family: the motor is switched OFF (duty cycle exactly 0, imposed by a ConstantPWM rule or
    set on the motor; with current data the characteristic then gives zero torque), so the chain decelerates under the constant
    load alone: w(t) = w_init + a t, theta(t) = theta0 + w_init t + a t^2/2 with a = -T_load / J_eq. Explicit Euler reproduces
    the speed exactly and the position with an O(dt) error, which halves with the step."""
    rng = ctx.rng('coast', i)
    case = {'kind': 'coast', 'index': i}
    prof = dict(p_continue=0.0, p_reset=0.0, p_selflock=0.0, p_speed_load=0.0, p_pos_load=0.0, p_time_load=0.0, p_pwm_preset=0.0, p_ic_zero=0.0, p_struct=0.2,
                p_overload=0.0, p_big_overload=0.0, max_stages=3, p_currents=1.0, p_worm=0.1)
    spec = GEN.gen_scenario(rng, prof, force_selflock=False)
    spec['load'].update(B=0.0, C=0.0, S=0.0, W=0.0, step_t=None, step_A=0.0, P=0.0)
    nums = GEN.chain_numbers(spec)
    q = GEN.qsi
    TL = spec['load']['A']
    a = -TL / nums['J_eq']
    w_init, th0 = q(spec['ic']['speed']), q(spec['ic']['pos'])
    k = spec['_ref']['k']                       # rate constant of the DRIVEN system: only used to size steps and horizon
    via_rule = i % 2 == 0
    D = rng.choice([0, 0.0])
    n0 = 16
    tu = spec['schedule'][0]['dt']['u']
    errs = []
    scale = abs(w_init) + abs(a) * 4 / k
    for j in range(3):
        sp = copy.deepcopy(spec)
        dt_si = 0.2 / k / 2 ** j
        n = n0 * 2 ** j
        dtq = GEN.Q('TimeInterval', SI.from_si('TimeInterval', dt_si, tu), tu)
        sp['schedule'] = [{'op': 'run', 'dt': dtq, 'T': GEN.Q('TimeInterval', SI.from_si('TimeInterval', dt_si * n, tu), tu)}]
        sp['rules'] = [{'type': 'const', 'start': GEN.Q('Time', 0.0, 'sec'), 'dur': GEN.Q('TimeInterval', 10 * dt_si * n, 'sec'), 'value': D}] if via_rule else []
        sp['ic']['pwm'] = D
        try:
            b = B.build(sp)
            runs = B.run_schedule(b)
        except Exception as ex:
            ctx.violation('harness:valid-scenario-rejected', {'exception': type(ex).__name__ + ': ' + str(ex)[:200]}, case)
            return
        if runs[0]['exc']:
            ctx.violation('C04:run-raised', {'exception': runs[0]['exc']}, case)
            return
        tr = B.extract(b)
        L = tr.els[-1]['vars']
        dts = q(dtq)
        eth = 0.0
        for kk in range(tr.n):
            t = tr.time[kk]
            dw = abs(L['angular speed'][kk] - (w_init + a * t))
            dth = abs(L['angular position'][kk] - (th0 + w_init * t + a * t * t / 2))
            eth = max(eth, dth)
            ctx.count('instants')
            if dw > 1e-9 * scale or dth > 0.6 * abs(a) * t * dts + 1e-9 * (abs(th0) + scale * t):
                ctx.violation('C04:motor-off-deceleration', {'instant': kk, 'time': t, 'speed': L['angular speed'][kk], 'closed_form_speed': w_init + a * t,
                                                            'position': L['angular position'][kk], 'closed_form_position': th0 + w_init * t + a * t * t / 2,
                                                            'duty_cycle': D, 'imposed_by_rule': via_rule, 'deceleration': a, 'topology': SC.topo_signature(spec)}, case)
                return
        errs.append(eth)
        ctx.count('runs')
    ctx.count('motor_off_scenarios')
    ctx.count('evaluations')
    for e1, e2 in zip(errs, errs[1:]):
        if e2 > 1e-7 * (abs(th0) + scale / k):
            ctx.count('order_ratios_checked')
            if not (1.7 <= e1 / e2 <= 2.4):
                ctx.violation('C04:error-does-not-halve', {'quantity': 'position (motor off)', 'errors_per_step_size': errs, 'ratio': e1 / e2}, case)
                return


def shard(ctx):
    for i in ctx.my_cases(n_cases(ctx.tier)):
        one(ctx, i)
    for i in ctx.my_cases(16 if ctx.tier == 'quick' else 600):
        coast(ctx, i)


def replay(ctx, case):
    if case.get('kind') == 'coast':
        return coast(ctx, case['index'])
    one(ctx, case['index'])
