"""C20 -- a powertrain is exactly the drive chain reachable from its motor (history + executable model)."""
from ..sim import build as B
from . import declcommon as DC

PROPERTY = 'C20'
RULE = ('sequences of 1..25 relation declarations over pools of 3..15 elements (re-declared joints and matings re-route the chain before assembly; failing calls '
        'interleaved); names with and without duplicates inside / outside the reachable chain. The harness keeps a shadow map drives[master] = slave updated on '
        'every call that returned normally and the self-locking verdict of each worm gear latest accepted mating; Powertrain(motor) must succeed exactly when the '
        'shadow chain has >= 2 elements and unique names (ValueError / NameError otherwise), its elements must be the shadow walk by identity, its flag the '
        'disjunction over the worm gears in the chain; elements / self_locking must not be assignable and must not change under later declarations. '
        'Cyclic shadow graphs are not chains and are skipped. non-trivial = sequence with >= 1 re-route; distinct by chain signature')
ASSUMPTIONS = ['the shadow follows calls that returned normally (C10 judges whether they should have)', 'self-locking verdicts within 1e-9 of the threshold are not used']
HEADLINE = ['second_assemblies', 'sequences', 'assemblies', 'assembled_ok', 'rejected_dangling_motor', 'rejected_duplicate_names', 'duplicates_outside_chain_accepted', 'reroutes',
            'self_locking_true', 'self_locking_false', 'immutability_checks', 'post_assembly_declarations', 'cyclic_skipped', 'chains_with_two_worms']


def floors(tier):
    return {'assemblies': 1500, 'assembled_ok': 500, 'rejected_dangling_motor': 50, 'rejected_duplicate_names': 50, 'duplicates_outside_chain_accepted': 30, 'reroutes': 1000,
            'self_locking_true': 40, 'self_locking_false': 300, 'immutability_checks': 1000, 'post_assembly_declarations': 500, 'chains_with_two_worms': 10, 'second_assemblies': 300, 'use_phase_runs': 60, 'resets_after_later_declarations': 30,
            'set:nontrivial': 60, 'set:chain_lengths': 8}


def n_cases(tier):
    return 3200 if tier == 'quick' else 100000


def sequence(ctx, i):
    mo = B.g().mo
    rng = ctx.rng('seq', i)
    case = {'kind': 'sequence', 'index': i}
    pool = DC.make_pool(rng, 2, 14, dup_p=0.08 if i % 3 else 0.0)
    shadow, sl = {}, {}
    reroutes = 0
    ctx.count('sequences')
    # bias: first build a plausible chain so that long chains exist, then perturb with random calls
    ut = B.g().ut
    order = pool[1:]
    rng.shuffle(order)
    prev = pool[0]
    k_take = rng.randint(0, len(order))
    # keep worm / wheel neighbours together so that worm matings (and self-locking chains) are assembled often
    taken = []
    rest = order[:]
    while rest and len(taken) < k_take:
        el = rest.pop(0)
        taken.append(el)
        if isinstance(el, (mo.WormGear, mo.WormWheel)):
            mate = next((x for x in rest if isinstance(x, (mo.WormGear, mo.WormWheel)) and isinstance(x, mo.WormGear) != isinstance(el, mo.WormGear)
                         and DC.same_magnitude(x.pressure_angle, el.pressure_angle)), None)
            if mate is not None:
                rest.remove(mate)
                taken.append(mate)
    for el in taken:
        c = DC.Call()
        try:
            if isinstance(prev, mo.WormGear) and isinstance(el, mo.WormWheel) or isinstance(prev, mo.WormWheel) and isinstance(el, mo.WormGear):
                f = rng.choice([0.02, 0.05, 0.3, 0.6])
                exp = DC.expect_worm(prev, el, f)
                ut.add_worm_gear_mating(master=prev, slave=el, friction_coefficient=f)
                if exp[0] == 'accept' and exp[1]['self_locking'] is not None:
                    sl[id(exp[1]['worm'])] = exp[1]['self_locking']
                elif exp[0] == 'accept':
                    sl[id(exp[1]['worm'])] = None
            else:
                ut.add_fixed_joint(master=prev, slave=el)
            if id(prev) in shadow and shadow[id(prev)] is not el:
                reroutes += 1
            shadow[id(prev)] = el
            prev = el
        except Exception:
            pass
    for _ in range(rng.randint(0, 12)):
        c = DC.do_call(rng, pool)
        if c.outcome is None:
            if id(c.a) in shadow and shadow[id(c.a)] is not c.b:
                reroutes += 1
            shadow[id(c.a)] = c.b
            if c.fn == 'worm' and c.expect[0] == 'accept':
                sl[id(c.expect[1]['worm'])] = c.expect[1]['self_locking']
            elif c.fn == 'worm':
                wg = c.a if isinstance(c.a, mo.WormGear) else c.b
                sl[id(wg)] = None
    ctx.count('reroutes', reroutes)
    motor = pool[0]
    chain, seen, cyc = [motor], {id(motor)}, False
    while id(chain[-1]) in shadow:
        nx = shadow[id(chain[-1])]
        if id(nx) in seen:
            cyc = True
            break
        chain.append(nx)
        seen.add(id(nx))
    if cyc:
        ctx.count('cyclic_skipped')
        return
    ctx.count('assemblies')
    ctx.count('evaluations')
    names = [e.name for e in chain]
    G = B.g()
    try:
        pt = G.Powertrain(motor=motor)
        oc = None
    except Exception as ex:
        oc = type(ex).__name__
    exp = 'ValueError' if len(chain) == 1 else ('NameError' if len(set(names)) < len(names) else None)
    wit = {'chain': [(type(e).__name__, e.name) for e in chain], 'pool_names': [e.name for e in pool], 'outcome': oc or 'assembled', 'expected': exp or 'assembled'}
    if oc != exp:
        ctx.violation('C20:assembly-outcome', wit, case)
        return
    if oc == 'ValueError':
        ctx.count('rejected_dangling_motor')
        return
    if oc == 'NameError':
        ctx.count('rejected_duplicate_names')
        return
    ctx.count('assembled_ok')
    ctx.seen('chain_lengths', len(chain))
    if len(set(e.name for e in pool)) < len(pool):
        ctx.count('duplicates_outside_chain_accepted')
    els = pt.elements
    if not isinstance(els, tuple) or len(els) != len(chain) or any(x is not y for x, y in zip(els, chain)):
        ctx.violation('C20:elements-differ-from-declared-chain', dict(wit, elements=[(type(e).__name__, e.name) for e in els]), case)
        return
    worms = [e for e in chain if isinstance(e, mo.WormGear)]
    if len(worms) >= 2:
        ctx.count('chains_with_two_worms')
    verdicts = [sl.get(id(w), False) for w in worms]
    if None not in verdicts:
        expsl = any(v is True for v in verdicts)
        ctx.count('self_locking_true' if expsl else 'self_locking_false')
        if pt.self_locking is not expsl:
            ctx.violation('C20:self-locking-flag', dict(wit, flag=pt.self_locking, expected=expsl, worm_verdicts=verdicts), case)
            return
    # immutability
    for attr, val in (('elements', ()), ('self_locking', not pt.self_locking)):
        ctx.count('immutability_checks')
        try:
            setattr(pt, attr, val)
            ctx.violation('C20:attribute-assignable', dict(wit, attribute=attr), case)
            return
        except AttributeError:
            pass
        except Exception as ex:
            ctx.violation('C20:attribute-assignment-wrong-exception', dict(wit, attribute=attr, exception=type(ex).__name__), case)
            return
    flag0 = pt.self_locking
    ids0 = [id(e) for e in pt.elements]
    deferred_reset = False
    if rng.random() < 0.5:
        # the powertrain is USED (a short simulation, then reset): element tuple and flag are fixed at construction and stay.
        # Whether the run itself succeeds is not this property's business (efficiency 0, missing data...): only counted.
        un = G.un
        try:
            tgt = [e for e in pt.elements if hasattr(e, 'external_torque')][-1]
            tgt.external_torque = lambda time, angular_position, angular_speed: un.Torque(1, 'mNm')
            pt.elements[-1].angular_position = un.AngularPosition(0, 'rad')
            pt.elements[-1].angular_speed = un.AngularSpeed(0, 'rad/s')
            G.Solver(powertrain=pt).run(time_discretization=un.TimeInterval(1, 'ms'), simulation_time=un.TimeInterval(4, 'ms'))
            ctx.count('use_phase_runs')
        except Exception as ex:
            ctx.count('use_phase_runs_failed')
            ctx.seen('use_phase_run_failures', type(ex).__name__ + ': ' + str(ex)[:60])
        deferred_reset = rng.random() < 0.5          # the reset comes only after the later declarations (below)
        try:
            if not deferred_reset:
                pt.reset()
                ctx.count('use_phase_resets')
        except Exception:
            ctx.count('use_phase_resets_failed')
        if [id(e) for e in pt.elements] != ids0 or pt.self_locking is not flag0:
            ctx.violation('C20:powertrain-changed-by-use', dict(wit, elements_after=[(type(e).__name__, e.name) for e in pt.elements], flag_before=flag0, flag_after=pt.self_locking), case)
            return
    for _ in range(rng.randint(1, 3)):
        c = DC.do_call(rng, pool)
        ctx.count('post_assembly_declarations')
        if c.outcome is None:
            shadow[id(c.a)] = c.b
            if c.fn == 'worm':
                wg = c.a if isinstance(c.a, mo.WormGear) else c.b
                sl[id(wg)] = c.expect[1]['self_locking'] if c.expect[0] == 'accept' else None
    if [id(e) for e in pt.elements] != ids0 or pt.self_locking is not flag0:
        ctx.violation('C20:powertrain-changed-after-later-declarations', dict(wit, elements_after=[(type(e).__name__, e.name) for e in pt.elements], flag_before=flag0, flag_after=pt.self_locking), case)
        return
    if deferred_reset:
        # the used powertrain is reset only now, after relations (possibly of its own worm) were declared anew: still the same
        # elements and the flag fixed at construction
        try:
            pt.reset()
            ctx.count('resets_after_later_declarations')
        except Exception:
            ctx.count('use_phase_resets_failed')
        if [id(e) for e in pt.elements] != ids0 or pt.self_locking is not flag0:
            ctx.violation('C20:powertrain-changed-by-reset-after-later-declarations', dict(wit, elements_after=[(type(e).__name__, e.name) for e in pt.elements], flag_before=flag0, flag_after=pt.self_locking), case)
            return
    # a second powertrain assembled from the same motor after the later declarations follows the *new* graph
    chain2, seen2, cyc2 = [motor], {id(motor)}, False
    while id(chain2[-1]) in shadow:
        nx = shadow[id(chain2[-1])]
        if id(nx) in seen2:
            cyc2 = True
            break
        chain2.append(nx)
        seen2.add(id(nx))
    if not cyc2 and len(chain2) > 1 and len({e.name for e in chain2}) == len(chain2):
        try:
            pt2 = G.Powertrain(motor=motor)
        except Exception as ex:
            ctx.violation('C20:assembly-outcome', dict(wit, second_assembly=True, outcome=type(ex).__name__, chain2=[(type(e).__name__, e.name) for e in chain2]), case)
            return
        ctx.count('second_assemblies')
        if len(pt2.elements) != len(chain2) or any(x is not y for x, y in zip(pt2.elements, chain2)):
            ctx.violation('C20:elements-differ-from-declared-chain', dict(wit, second_assembly=True, chain2=[(type(e).__name__, e.name) for e in chain2],
                                                                         elements=[(type(e).__name__, e.name) for e in pt2.elements]), case)
            return
        v2 = [sl.get(id(w), False) for w in chain2 if isinstance(w, mo.WormGear)]
        if None not in v2 and pt2.self_locking is not any(v is True for v in v2):
            ctx.violation('C20:self-locking-flag', dict(wit, second_assembly=True, flag=pt2.self_locking, worm_verdicts=v2), case)
            return
    if reroutes:
        ctx.seen('nontrivial', '-'.join(type(e).__name__[:2] for e in chain))
    if len(ctx.samples) < 3 and len(chain) > 3:
        ctx.sample(dict(wit, reroutes=reroutes, self_locking=pt.self_locking))


def shard(ctx):
    for i in ctx.my_cases(n_cases(ctx.tier)):
        sequence(ctx, i)


def replay(ctx, case):
    sequence(ctx, case['index'])
