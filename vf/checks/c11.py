"""C11 -- the time axis is the uniform grid 0, dt, ..., T and never overruns T (time-grid oracle)."""
import math
from decimal import Decimal
from ..ref import si as SI
from ..sim import gen as GEN, build as B

PROPERTY = 'C11'
RULE = ('cheapest powertrain (motor + one gear); dt = m*10^-e (m in 1..99, e in 0..4), n in 2..400 steps, T written both as dt*n (float product) and as the '
        'decimal literal; dt and T independently in any of the four time units; fresh runs, continued runs (same dt, other dt, other unit) and runs with a stop '
        'condition; >= 200 (dt, n) pairs for which numpy.arange(dt, T+dt, dt) is independently predicted to overrun are forced into every run. Oracle: count, '
        'spacing, last = T, none beyond T (1e-9 relative to T), Time kind and unit labels. non-trivial = non-integer dt; distinct by (m, e, n, units, T-form, schedule)')
ASSUMPTIONS = ['T is a multiple of dt by construction (the statement speaks of round(T/dt) instants ending at T)', 'instants compared in SI through the harness table at 1e-9 relative to T']
HEADLINE = ['pairs', 'instants', 'overrun_prone_pairs', 'fresh_runs', 'continued_runs', 'stopped_runs', 'unit_change_continuations']


def floors(tier):
    return {'pairs': 1000, 'overrun_prone_pairs': 200, 'continued_runs': 200, 'stopped_runs': 50, 'unit_change_continuations': 60, 'reset_reruns': 100, 'continuations_after_a_stopped_run': 100, 'durations_converted_in_place': 200,
            'set:dt_T_units': 16, 'set:nontrivial': 300}


def n_cases(tier):
    return 1600 if tier == 'quick' else 40000


def arange_len(dt, T):
    """length numpy.arange(dt, T+dt, dt) would have: ceil((stop-start)/step) in double arithmetic"""
    return max(0, math.ceil(((T + dt) - dt) / dt))


def overrun_prone(m, e, n):
    dt = float(f'{m}e-{e}')
    T = float(Decimal(m * n).scaleb(-e))
    return arange_len(dt, T) == n + 1


_PRONE = None


def prone_list():
    global _PRONE
    if _PRONE is None:
        out = []
        for e in range(0, 5):
            for m in range(1, 100):
                for n in (2, 3, 5, 7, 10, 30, 33, 70, 100, 110, 230, 300, 399):
                    if overrun_prone(m, e, n):
                        out.append((m, e, n))
        _PRONE = out
    return _PRONE


def make_case(rng, i):
    prone = prone_list()
    if i % 3 == 0 and prone:
        m, e, n = prone[(i // 3) % len(prone)]
        forced = True
    else:
        m, e, n = rng.randint(1, 99), rng.randint(0, 4), rng.randint(2, 400 if i % 5 else 60)
        forced = False
    if (i // 3) % 40 == 1:
        m, e, n, forced = 35, 2, 30, True          # the known trigger dt=0.35 s, T=10.5 s
    long_run = i % 40 == 37
    if long_run:
        # thousands of steps: the float quotient T/dt carries an excess of a few ulps that grows with the step count
        m, e, n, forced = rng.randint(1, 999), rng.randint(0, 4), rng.randint(4100, 9000), False
    udt, uT = SI.units('TimeInterval')[i % 4], SI.units('TimeInterval')[(i // 4) % 4]
    dtv = float(f'{m}e-{e}')
    form = 'product' if (i // 16) % 2 == 0 else 'literal'
    Tv_same = dtv * n if form == 'product' else float(Decimal(m * n).scaleb(-e))
    if forced:
        udt = uT = SI.units('TimeInterval')[(i // 3) % 4]      # keep the predicted-overrun pair exactly as predicted
        form = 'literal'
        Tv_same = float(Decimal(m * n).scaleb(-e))
    dt = GEN.Q('TimeInterval', dtv, udt)
    T = GEN.Q('TimeInterval', Tv_same, udt)
    if uT != udt:
        T = GEN.reexpress(T, uT)
    dt_si = GEN.qsi(dt)
    # dynamics kept gentle whatever dt is: k*dt = 0.05
    Tmax, w0 = 0.02, 300.0
    Jm = Tmax * dt_si / (0.05 * w0)
    spec = {'motor': {'type': 'motor', 'name': 'motor', 'J': GEN.Q('InertiaMoment', Jm * 0.3, 'kgm^2'), 'w0': GEN.Q('AngularSpeed', w0, 'rad/s'),
                      'Tmax': GEN.Q('Torque', Tmax, 'Nm'), 'i0': None, 'imax': None},
            'chain': [{'type': 'spur', 'name': 'g', 'z': 20, 'J': GEN.Q('InertiaMoment', Jm * 0.7, 'kgm^2'), 'rel': {'type': 'joint'}}],
            'load': {'A': 0.004, 'B': 0.0, 'C': 0.0, 'S': 0.0, 'W': 0.0, 'step_t': None, 'step_A': 0.0, 'unit': 'mNm'},
            'ic': {'pos': GEN.Q('AngularPosition', 0.0, 'rad'), 'speed': GEN.Q('AngularSpeed', 0.0, 'rad/s'), 'pwm': None},
            'rules': [], 'stop': None}
    if i % 13 == 6:
        # a self-locking worm drive under a load it cannot move: the powertrain is held for (most of) the run -- the axis is the
        # same grid whatever the powertrain does
        spec['chain'] = [{'type': 'wormgear', 'name': 'wg', 'n_starts': 1, 'J': GEN.Q('InertiaMoment', Jm * 0.2, 'kgm^2'), 'helix': GEN.Q('Angle', 10, 'deg'),
                          'pa': GEN.Q('Angle', 20, 'deg'), 'rel': {'type': 'joint'}},
                         {'type': 'wormwheel', 'name': 'g', 'z': 20, 'J': GEN.Q('InertiaMoment', Jm * 50, 'kgm^2'), 'helix': GEN.Q('Angle', 10, 'deg'),
                          'pa': GEN.Q('Angle', 20, 'deg'), 'rel': {'type': 'worm', 'f': 0.4}}]
        spec['load']['A'] = 8 * Tmax * GEN.chain_numbers(spec)['E']
    if i % 5 == 2:
        spec['load']['reentrant'] = 'inplace-time'          # the load function converts the instant it receives in place (sim/build.py)
    sched = [{'op': 'run', 'dt': dt, 'T': T}]
    kind = i % 7
    info = {'m': m, 'e': e, 'n': n, 'form': form, 'forced': forced, 'kind': 'fresh'}
    if long_run:
        info['long_run'] = True
        kind = 0
    if kind in (1, 2, 3):
        info['kind'] = 'continued'
        if kind == 1:
            dt2, n2 = dict(dt), rng.randint(2, 60)
            if rng.random() < 0.4 and udt in ('sec', 'ms') and T['u'] == udt:
                # the same solver, the same dt and the same NUMBER for the duration -- in the next larger unit
                info['same_numbers_other_unit'] = True
        elif kind == 2:
            u2 = rng.choice([u for u in SI.units('TimeInterval') if u != udt])
            dt2, n2 = GEN.reexpress(dt, u2), rng.randint(2, 60)
            info['unit_change'] = True
        else:
            m2, e2 = rng.randint(1, 99), rng.randint(0, 4)
            u2 = rng.choice(SI.units('TimeInterval'))
            dt2, n2 = GEN.Q('TimeInterval', float(f'{m2}e-{e2}'), u2), rng.randint(2, 60)
            # keep the continuation step comparable in size so that the dynamics stay gentle
            if not (0.05 < GEN.qsi(dt2) / dt_si < 20):
                dt2 = GEN.reexpress(GEN.Q('TimeInterval', dtv * rng.choice([2, 0.5, 3]), udt), u2)
            info['unit_change'] = u2 != udt
        T2 = GEN.Q('TimeInterval', float(Decimal(repr(dt2['v'])) * n2), dt2['u'])
        if rng.random() < 0.4:
            T2 = GEN.reexpress(T2, rng.choice(SI.units('TimeInterval')))
        if info.get('same_numbers_other_unit'):
            T2 = GEN.Q('TimeInterval', T['v'], {'ms': 'sec', 'sec': 'min'}[udt])
            n2 = round(GEN.qsi(T2) / GEN.qsi(dt2))
            if n2 > 20000:
                T2 = GEN.Q('TimeInterval', float(Decimal(repr(dt2['v'])) * 60), dt2['u'])
                n2 = 60
        sched.append({'op': 'run', 'dt': dt2, 'T': T2})
        info['n2'] = n2
    elif kind == 5:
        info['kind'] = 'reset-rerun'
        m2, e2 = rng.randint(1, 99), rng.randint(0, 4)
        u2 = rng.choice(SI.units('TimeInterval'))
        dt2 = GEN.Q('TimeInterval', float(f'{m2}e-{e2}'), u2)
        if not (0.05 < GEN.qsi(dt2) / dt_si < 20):
            dt2 = GEN.reexpress(GEN.Q('TimeInterval', dtv * rng.choice([2, 0.5, 3]), udt), u2)
        n2 = rng.randint(2, 80)
        sched += [{'op': 'reset'}, {'op': 'reapply'}] + ([{'op': 'newsolver'}] if rng.random() < 0.5 else []) + \
                 [{'op': 'run', 'dt': dt2, 'T': GEN.Q('TimeInterval', float(Decimal(repr(dt2['v'])) * n2), dt2['u'])}]
        info['n2'] = n2
    elif kind == 6:
        info['kind'] = 'stopped-then-continued'
        spec['stop'] = {'sensor': 'enc', 'elem': 1, 'op': 'ge', 'thr': GEN.Q('AngularPosition', 0.5 * (0.8 * w0 * 0.05) * (rng.uniform(0.2, 0.8) * n * dt_si) ** 2 / dt_si, 'rad')}
        n2 = rng.randint(2, 40)
        u2 = rng.choice(SI.units('TimeInterval'))
        dt2 = GEN.reexpress(dt, u2) if rng.random() < 0.5 else dict(dt)
        sched[0]['stop'] = True
        sched.append({'op': 'run', 'dt': dt2, 'T': GEN.Q('TimeInterval', float(Decimal(repr(dt2['v'])) * n2) if dt2['u'] == dt['u'] else GEN.qsi(dt2) * n2 / SI.FACT['Time'][dt2['u']], dt2['u']), 'stop': False})
        info['n2'] = n2
    elif kind == 4:
        info['kind'] = 'stopped'
        # stop when the gear has turned far enough: somewhere inside the run
        spec['stop'] = {'sensor': 'enc', 'elem': 1, 'op': 'ge', 'thr': GEN.Q('AngularPosition', 0.5 * (0.8 * w0 * 0.05) * (rng.uniform(0.2, 0.9) * n * dt_si) ** 2 / dt_si, 'rad')}
    if i % 4 == 3:
        # the duration (and sometimes the step) handed to run() went through an in-place conversion first
        for op_ in sched:
            if op_['op'] == 'run':
                op_['T_via'] = rng.choice([u for u in SI.units('TimeInterval') if u != op_['T']['u']])
                if rng.random() < 0.5:
                    op_['dt_via'] = rng.choice([u for u in SI.units('TimeInterval') if u != op_['dt']['u']])
        info['converted_in_place'] = True
    if i % 9 == 8:
        # a first attempt that fails inside its first instant (the load function forgot the unit -> TypeError), then the load is
        # corrected: whether the library regards the next call as fresh or as continued from time 0, the axis is 0, dt, ..., T
        # (after an earlier study and a reset: on a never-simulated model the library cannot take up work after such a failure at
        # all -- it raises TypeError on a None acceleration --, which no property covers)
        good = dict(spec['load'])
        sched = [{'op': 'run', 'dt': dt, 'T': T}, {'op': 'reset'}, {'op': 'reapply'}, {'op': 'setload', 'load': dict(good, bare=True)},
                 {'op': 'failrun', 'dt': dt, 'T': T}, {'op': 'setload', 'load': good}] + sched
        info['failed_first_attempt'] = True
    spec['schedule'] = sched
    return spec, info


def check_axis(ctx, spec, info, b, runs, case):
    pt = b.pt
    t = [B.si(x) for x in pt.time]
    for x in pt.time:
        if type(x).__name__ != 'Time' or x.unit not in SI.TABLE['Time']:
            ctx.violation('C11:instant-kind', {'instant': [type(x).__name__, x.value, x.unit]}, case)
            return
    for r in runs:
        if r['exc']:
            ctx.violation('C11:run-raised', {'exception': r['exc'], 'dt': r['dt_q'], 'T': r['T_q']}, case)
            return
        dt, T = r['dt'], r['T']
        n = round(T / dt)
        start = t[r['n0'] - 1] if not r['fresh'] else 0.0
        grid = [start + j * dt for j in range(1, n + 1)]
        got = t[r['n0'] + (1 if r['fresh'] else 0):r['n1']]
        scale = start + T
        stopped = r['stop']
        wit = {'dt': r['dt_q'], 'T': r['T_q'], 'expected_steps': n, 'recorded_steps': len(got), 'fresh': r['fresh'], 'start': start,
               'last_recorded': got[-1] if got else None, 'expected_last': start + T, 'info': info}
        if r['fresh'] and (not t or t[0] != 0.0):
            ctx.violation('C11:first-instant-not-zero', wit, case)
            return
        if (not stopped and len(got) != n) or (stopped and len(got) > n):
            ctx.violation('C11:instant-count', wit, case)
            return
        for j, (g, e_) in enumerate(zip(got, grid)):
            if abs(g - e_) > 1e-9 * scale:
                wit.update(index=j + 1, recorded=g, expected=e_)
                ctx.violation('C11:off-grid-instant', wit, case)
                return
        if got and got[-1] > (start + T) * (1 + 1e-9):
            ctx.violation('C11:instant-beyond-T', wit, case)
            return
        if not stopped and got and abs(got[-1] - (start + T)) > 1e-9 * scale:
            ctx.violation('C11:last-instant-not-T', wit, case)
            return
        ctx.count('instants', len(got))
        ctx.count('fresh_runs' if r['fresh'] else 'continued_runs')
        if stopped:
            ctx.count('stopped_runs')
            if len(got) < n:
                ctx.count('early_stops')
    return True


def one(ctx, i):
    rng = ctx.rng('case', i)
    spec, info = make_case(rng, i)
    case = {'kind': 'grid', 'index': i}
    ctx.count('pairs')
    ctx.count('evaluations')
    try:
        b = B.build(spec)
    except Exception as ex:
        ctx.violation('harness:valid-scenario-rejected', {'exception': type(ex).__name__ + ': ' + str(ex)[:200]}, case)
        return
    runs = B.run_schedule(b)
    d0 = spec['schedule'][0]
    ctx.seen('dt_T_units', d0['dt']['u'] + '|' + d0['T']['u'])
    if overrun_prone(info['m'], info['e'], info['n']) and d0['dt']['u'] == d0['T']['u'] and info['form'] == 'literal':
        ctx.count('overrun_prone_pairs')
    if spec['load'].get('reentrant'):
        ctx.count('load_functions_converting_the_instant_in_place')
    if info.get('long_run'):
        ctx.count('runs_of_more_than_4000_steps')
    if len(spec['chain']) == 2:
        ctx.count('grids_on_a_held_self_locking_drive')
    if info.get('converted_in_place'):
        ctx.count('durations_converted_in_place')
    if info.get('failed_first_attempt'):
        ctx.count('runs_after_a_failed_first_attempt')
        if getattr(b, 'failrun_outcome', None) != 'TypeError':
            ctx.violation('C11:unitless-load-not-rejected-with-TypeError', {'outcome': getattr(b, 'failrun_outcome', None)}, case)
            return
    if info.get('unit_change'):
        ctx.count('unit_change_continuations')
    if info['kind'] == 'stopped-then-continued':
        ctx.count('continuations_after_a_stopped_run')
    if info['kind'] == 'reset-rerun':
        ctx.count('reset_reruns')
        if b.captures:
            # the history before the reset is judged too (its runs were captured)
            pass
    if getattr(b, 'modified_run_arguments', None):
        ctx.violation('C11:run-argument-modified-by-the-run', {'arguments': b.modified_run_arguments[:2], 'info': info}, case)
        return
    ok = check_axis(ctx, spec, info, b, runs, case)
    if ok and info['e'] > 0 and info['m'] % 10:
        ctx.seen('nontrivial', f"{info['m']}e-{info['e']}x{info['n']}|{d0['dt']['u']}{d0['T']['u']}|{info['form']}|{info['kind']}")
    if len(ctx.samples) < 3:
        ctx.sample({'dt': d0['dt'], 'T': d0['T'], 'expected_instants': info['n'] + 1, 'recorded_instants_first_run': runs[0]['n1'] if runs else None,
                    'last': B.si(b.pt.time[-1]) if b.pt.time else None, 'schedule': info['kind']})


def shard(ctx):
    for i in ctx.my_cases(n_cases(ctx.tier)):
        one(ctx, i)


def replay(ctx, case):
    one(ctx, case['index'])
