"""C08 -- DC motor torque and current follow the documented characteristic (reference-model monitor)."""
import math
from ..ref import si as SI
from ..ref import motor as RM
from ..sim import gen as GEN

PROPERTY = 'C08'
RULE = ('random motor constants (log-uniform, any unit of their kind; i0 from 0 to 0.6 imax; with and without current data); speeds over +-3 w0 incl. '
        '0, +-w0, +-D w0; duty cycles over [-1,1] incl. 0, +-1, the dead-zone boundary +-i0/imax and its 1,2,3-ulp neighbours on both sides, ints and floats. '
        'Each (constants, D, w) evaluation compares compute_torque / compute_electric_current with the reference law, checks exact zero in the dead zone, '
        'bit-exact antisymmetry under (D,w)->(-D,-w), continuity at the boundary and the derived facts. non-trivial = outside {D=+-1, w=0}; '
        'distinct by (region, unit signature)')
ASSUMPTIONS = ['reference law in vf/ref/motor.py', '1e-9 relative plus a cancellation floor proportional to ulp(i0)/(imax-i0) near the boundary',
               'subnormal |D| with i0 = 0 is out of domain (the documented expression itself overflows)']
HEADLINE = ['motors', 'evaluations', 'region_dead_zone', 'region_boundary_ulp', 'region_normal_pos', 'region_normal_neg', 'region_beyond_no_load',
            'region_no_current_data', 'antisymmetry_pairs', 'continuity_checks', 'derived_facts', 'simulation_current_samples']


def floors(tier):
    return {'evaluations': 50000, 'region_dead_zone': 3000, 'region_boundary_ulp': 3000, 'region_normal_pos': 8000, 'region_normal_neg': 8000,
            'region_beyond_no_load': 3000, 'region_no_current_data': 2000, 'antisymmetry_pairs': 20000, 'continuity_checks': 500, 'derived_facts': 1000, 'simulation_current_samples': 2000, 'decoupled_current_evaluations': 1500}


def n_cases(tier):
    return 800 if tier == 'quick' else 20000


def make_motor(spec):
    from ..sim import build as B
    return B.make_element(spec)


def set_state(m, D, w_q):
    import gearpy.units as U
    m.pwm = D
    m.angular_speed = U.AngularSpeed(w_q['v'], w_q['u'])


def evaluate(m, D, w_q, cur):
    set_state(m, D, w_q)
    m.compute_torque()
    T = m.driving_torque
    i = None
    if cur:
        m.compute_electric_current()
        i = m.electric_current
    return T, i


def one_motor(ctx, idx, tier):
    rng = ctx.rng('motor', idx)
    prof = dict(GEN.DEFAULT_PROFILE, p_currents=0.85)
    ms = GEN.gen_motor(rng, prof)
    if rng.random() < 0.08 and ms['i0'] is not None:
        ms['i0'] = GEN.Q('Current', 0, ms['imax']['u'])        # documented as allowed
    case = {'kind': 'motor', 'index': idx}
    derate = None
    try:
        if rng.random() < 0.12:
            # a user subclass that overrides public constants (a derated motor): the law is stated in the motor's PUBLIC
            # constants, so torque and current must both follow the overridden values
            import gearpy.units as U_
            from gearpy.mechanical_objects import DCMotor as _DC
            derate = {'Tmax': rng.choice([0.5, 0.8]), 'w0': rng.choice([1.0, 0.9])}

            class DeratedMotor(_DC):
                @property
                def maximum_torque(self):
                    return super().maximum_torque * derate['Tmax']

                @property
                def no_load_speed(self):
                    return super().no_load_speed * derate['w0']
            kw_ = {}
            if ms['i0'] is not None:
                kw_ = dict(no_load_electric_current=U_.Current(ms['i0']['v'], ms['i0']['u']), maximum_electric_current=U_.Current(ms['imax']['v'], ms['imax']['u']))
            m = DeratedMotor(name='motor', inertia_moment=U_.InertiaMoment(ms['J']['v'], ms['J']['u']), no_load_speed=U_.AngularSpeed(ms['w0']['v'], ms['w0']['u']),
                             maximum_torque=U_.Torque(ms['Tmax']['v'], ms['Tmax']['u']), **kw_)
            ctx.count('motors_of_a_user_subclass_overriding_constants')
        else:
            m = make_motor(ms)
    except Exception as ex:
        ctx.violation('C08:valid-motor-rejected', {'motor': ms, 'exception': type(ex).__name__ + ': ' + str(ex)[:150]}, case)
        return
    ctx.count('motors')
    if rng.random() < 0.35:
        # the user reads the motor's constants and converts the returned quantities in place (to print a data sheet in other
        # units): the motor is the same motor afterwards, every law below must still hold with the same SI constants
        for attr in ('no_load_speed', 'maximum_torque', 'no_load_electric_current', 'maximum_electric_current', 'inertia_moment'):
            obj = getattr(m, attr, None)
            if obj is not None and rng.random() < 0.7:
                us_ = [u_ for u_ in SI.units(type(obj).__name__) if u_ != obj.unit]
                obj.to(rng.choice(us_), inplace=True)
                ctx.count('constants_converted_in_place_after_construction')
    q = GEN.qsi
    Tmax, w0 = q(ms['Tmax']), q(ms['w0'])
    if derate:
        Tmax, w0 = Tmax * derate['Tmax'], w0 * derate['w0']
        ms = dict(ms, derated_subclass=derate)
    cur = ms['i0'] is not None
    i0, imax = (q(ms['i0']), q(ms['imax'])) if cur else (None, None)
    wu = rng.choice(SI.units('AngularSpeed'))
    fw = SI.FACT['AngularSpeed'][wu]
    b = (i0 / imax) if cur else 0.0
    Ds = [1, -1, 1.0, -1.0, 0, 0.0, 0.5, -0.5] + [rng.uniform(-1, 1) for _ in range(10)] + [rng.choice([-1, 1]) * 10 ** rng.uniform(-4, 0) for _ in range(4)]
    bnd = []
    if cur and b > 0:
        for s in (1, -1):
            x = b
            bnd.append(s * x)
            up, dn = x, x
            for _ in range(3):
                up, dn = math.nextafter(up, 2), math.nextafter(dn, 0)
                bnd += [s * up, s * dn]
        Ds += bnd + [rng.uniform(-b, b) for _ in range(3)] + [b * (1 + 1e-9), b * (1 - 1e-9), -b * (1 + 1e-6)]
    Ds = [d for d in Ds if abs(d) <= 1 and (d == 0 or abs(d) >= 1e-6)]
    n_w = 3 if tier == 'quick' else 6
    for jD, D in enumerate(Ds):
        if jD % 7 == 3 and derate is None:
            # between two evaluations (also at the same duty cycle: Ds repeats 1 / 1.0 / -1 / -1.0) a constant is read back and
            # converted in place once more
            for attr in ('maximum_torque', 'no_load_speed', 'maximum_electric_current'):
                obj = getattr(m, attr, None)
                if obj is not None:
                    us_ = [u_ for u_ in SI.units(type(obj).__name__) if u_ != obj.unit]
                    obj.to(us_[jD % len(us_)], inplace=True)
            ctx.count('constants_converted_in_place_between_evaluations')
        ws = [0.0, w0, -w0, D * w0] + [rng.uniform(-3, 3) * w0 for _ in range(n_w)]
        for w in ws:
            wq = {'v': w / fw, 'u': wu}
            w_si = wq['v'] * fw
            check_point(ctx, m, ms, D, wq, w_si, Tmax, w0, i0, imax, cur, b, D in bnd, case)
    # continuity across the boundary (ulp neighbours on both sides) and derived facts
    if cur and b > 0:
        for s in (1, -1):
            for w in (0.0, 0.3 * w0, -0.7 * w0):
                wq = {'v': w / fw, 'u': wu}
                try:
                    # a few tens of ulps on either side: the library computes the boundary as a unit-aware
                    # ratio that may differ from the harness's i0/imax by rounding
                    Tin, iin = evaluate(m, s * b * (1 - 8e-15), wq, True)
                    Tout, iout = evaluate(m, s * b * (1 + 8e-15), wq, True)
                except Exception as ex:
                    ctx.violation('C08:exception-in-domain', {'motor': ms, 'D': s * b, 'speed': wq, 'exception': type(ex).__name__ + ': ' + str(ex)[:150]}, case)
                    continue
                ctx.count('continuity_checks')
                x = abs(w / (b * w0))
                cond = imax / (imax - i0)
                if abs(SI.si(Tout)) > Tmax * cond * 1e-12 * (1 + x) + 1e-9 * Tmax or SI.si(Tin) != 0 or abs(SI.si(iout) - SI.si(iin)) > 1e-9 * imax * (1 + x):
                    ctx.violation('C08:discontinuity-at-dead-zone-boundary', {'motor': ms, 'boundary': s * b, 'speed': wq, 'T_inside': SI.si(Tin), 'T_outside': SI.si(Tout),
                                                                             'i_inside': SI.si(iin), 'i_outside': SI.si(iout)}, case)
    # the current law for a *given* driving torque and duty cycle: the duty cycle is changed after the torque was computed
    # and the driving torque is set through its public setter (nothing computed earlier may be reused)
    if cur:
        import gearpy.units as U_
        for _ in range(6):
            D1 = rng.choice([1, -1, rng.uniform(-1, 1)])
            D2 = rng.choice([1, -1, 0.5, -0.5, rng.uniform(-1, 1), rng.uniform(-b, b) if b > 0 else 0.3])
            if abs(D2) < 1e-6 or abs(abs(D2) - b) <= 1e-9 * max(b, 1e-300):
                continue
            try:
                evaluate(m, D1, {'v': rng.uniform(-1, 1) * w0 / fw, 'u': wu}, True)
                m.pwm = D2
                Tset = rng.uniform(-1.5, 1.5) * Tmax
                tu_ = rng.choice(SI.units('Torque'))
                m.driving_torque = U_.Torque(SI.from_si('Torque', Tset, tu_), tu_)
                Tset = SI.si(m.driving_torque)
                m.compute_electric_current()
                got = SI.si(m.electric_current)
            except Exception as ex:
                ctx.violation('C08:exception-in-domain', {'motor': ms, 'D_before': D1, 'D': D2, 'exception': type(ex).__name__ + ': ' + str(ex)[:150]}, case)
                break
            ctx.count('decoupled_current_evaluations')
            if abs(D2) <= b:
                exp = D2 * imax
            else:
                TD = RM.tmax_d(Tmax, i0, imax, D2)
                exp = ((D2 * imax - i0) if D2 > 0 else (D2 * imax + i0)) * (Tset / TD) + (i0 if D2 > 0 else -i0)
            cond = imax / (imax - i0)
            if abs(got - exp) > 1e-9 * abs(exp) + imax * 1e-12 * cond * (1 + abs(Tset / Tmax) / max(abs(abs(D2) - b), 1e-9)):
                ctx.violation('C08:current-for-given-torque', {'motor': ms, 'duty_cycle_of_the_earlier_torque_computation': D1, 'duty_cycle': D2, 'driving_torque_set': Tset,
                                                               'got': got, 'reference': exp}, case)
                break
    try:
        T1, i1 = evaluate(m, 1, {'v': 0.0, 'u': wu}, cur)
        T2, i2 = evaluate(m, 1, {'v': w0 / fw, 'u': wu}, cur)
    except Exception as ex:
        ctx.violation('C08:exception-in-domain', {'motor': ms, 'exception': type(ex).__name__ + ': ' + str(ex)[:150]}, case)
        return
    ctx.count('derived_facts', 2)
    ok = abs(SI.si(T1) - Tmax) <= 1e-12 * Tmax and abs(SI.si(T2)) <= 1e-9 * Tmax
    if cur:
        ok = ok and abs(SI.si(i1) - imax) <= 1e-12 * imax and abs(SI.si(i2) - i0) <= 1e-9 * imax
    if not ok:
        ctx.violation('C08:derived-facts', {'motor': ms, 'T(D=1,w=0)': SI.si(T1), 'Tmax': Tmax, 'T(D=1,w=w0)': SI.si(T2),
                                            'i(D=1,w=0)': SI.si(i1) if cur else None, 'imax': imax, 'i(D=1,w=w0)': SI.si(i2) if cur else None, 'i0': i0}, case)
    if len(ctx.samples) < 2:
        ctx.sample({'motor': ms, 'D': 0.5, 'speed_rad_s': 0.3 * w0,
                    'library_T_Nm': SI.si(evaluate(m, 0.5, {'v': 0.3 * w0 / fw, 'u': wu}, cur)[0]), 'reference_T_Nm': RM.torque(Tmax, w0, i0, imax, 0.5, 0.3 * w0)})


def check_point(ctx, m, ms, D, wq, w, Tmax, w0, i0, imax, cur, b, is_bnd, case):
    wit = {'motor': ms, 'D': D, 'speed': wq}
    try:
        T, i = evaluate(m, D, wq, cur)
    except Exception as ex:
        wit['exception'] = type(ex).__name__ + ': ' + str(ex)[:150]
        ctx.violation('C08:exception-in-domain', wit, case)
        return
    ctx.count('evaluations')
    Ts = SI.si(T)
    is_ = SI.si(i) if cur else None
    if type(T).__name__ != 'Torque' or (cur and type(i).__name__ != 'Current'):
        ctx.violation('C08:result-kind', wit, case)
        return
    if not cur:
        ctx.count('region_no_current_data')
        exp = Tmax * (1 - w / w0)
        if abs(Ts - exp) > 1e-9 * max(abs(exp), Tmax * 1e-6):
            ctx.violation('C08:torque-no-current-data', dict(wit, got=Ts, reference=exp), case)
        return
    x = abs(w / (D * w0)) if D else 0.0
    cond = imax / (imax - i0)
    margin = RM.dead_zone_margin(i0, imax, D)
    if is_bnd:
        ctx.count('region_boundary_ulp')
    if abs(margin) <= 8 * 2.3e-16:
        # within rounding distance of the boundary: either branch is acceptable (they are continuous there)
        cands_T = [0.0, RM.tmax_d(Tmax, i0, imax, D) * (1 - w / (D * w0))] if D else [0.0]
        cands_i = [D * imax, (RM.current_from_speed(i0, imax, w0, math.copysign(max(abs(D), math.nextafter(b, 2)), D), w)) if D else 0.0]
        ctx.count('near_threshold')
    elif margin < 0:
        ctx.count('region_dead_zone')
        if Ts != 0:
            ctx.violation('C08:nonzero-torque-in-dead-zone', dict(wit, got=Ts, boundary=b), case)
            return
        cands_T, cands_i = [0.0], [D * imax]
    else:
        ctx.count('region_normal_pos' if D > 0 else 'region_normal_neg')
        if x > 1:
            ctx.count('region_beyond_no_load')
        cands_T = [RM.torque(Tmax, w0, i0, imax, D, w)]
        cands_i = [RM.current(Tmax, w0, i0, imax, D, w)]
    fT = Tmax * cond * 4e-15 * (1 + x)
    fi = imax * 4e-15 * (1 + x) * cond
    if not any(abs(Ts - c) <= 1e-9 * abs(c) + fT for c in cands_T):
        ctx.violation('C08:torque', dict(wit, got=Ts, reference=cands_T, boundary=b), case)
        return
    if not any(abs(is_ - c) <= 1e-9 * abs(c) + fi for c in cands_i):
        ctx.violation('C08:current', dict(wit, got=is_, reference=cands_i, boundary=b, torque=Ts), case)
        return
    if not (D in (1, -1) and w == 0):
        ctx.seen('nontrivial', f'{"dz" if margin < 0 else ("+" if D > 0 else "-")}{"b" if is_bnd else ""}{">" if x > 1 else ""}|{ms["Tmax"]["u"]}{ms["w0"]["u"]}{ms["imax"]["u"]}{wq["u"]}')
    # exact antisymmetry
    try:
        T2, i2 = evaluate(m, -D, {'v': -wq['v'], 'u': wq['u']}, True)
    except Exception as ex:
        wit['exception'] = type(ex).__name__ + ': ' + str(ex)[:150]
        ctx.violation('C08:exception-in-domain', dict(wit, mirrored=True), case)
        return
    ctx.count('antisymmetry_pairs')
    if T2.value != -T.value or T2.unit != T.unit or i2.value != -i.value or i2.unit != i.unit:
        ctx.violation('C08:antisymmetry', dict(wit, T=[T.value, T.unit], T_mirror=[T2.value, T2.unit], i=[i.value, i.unit], i_mirror=[i2.value, i2.unit]), case)


def sim_monitor(ctx, ana, case):
    """inside whole simulations: the recorded current and driving torque follow the law at the recorded speed and duty cycle"""
    from ..sim import mon as MON
    spec, tr = ana.spec, ana.tr
    Tmax, w0, i0, imax = MON.motor_consts(spec)
    if i0 is None:
        return
    M = ana.M
    for k in range(ana.N):
        D, w = tr.pwm[k], M['angular speed'][k]
        if D != D:
            continue
        x = abs(w / (D * w0)) if D else 0.0
        cond = imax / (imax - i0)
        ctx.count('simulation_current_samples')
        if abs(RM.dead_zone_margin(i0, imax, D)) <= 1e-9:
            ctx.count('near_threshold')
            continue
        ei = RM.current(Tmax, w0, i0, imax, D, w)
        gi = M['electric current'][k]
        if abs(gi - ei) > 1e-9 * abs(ei) + imax * 4e-15 * (1 + x) * cond:
            ctx.violation('C08:current-in-simulation', {'instant': k, 'pwm': D, 'motor_speed': w, 'recorded_current': gi, 'reference': ei,
                                                        'recorded_driving_torque': M['driving torque'][k], 'reference_torque': RM.torque(Tmax, w0, i0, imax, D, w)}, case)
            return


def sim_case(ctx, i):
    from . import simcommon as SC
    rng = ctx.rng('sim', i)
    spec = GEN.gen_scenario(rng, dict(p_currents=1.0, p_continue=0.3, p_reset=0.1, n_lo=8, n_hi=40))
    if i % 2:
        GEN.add_const_rules(rng, spec)
    if i % 4 == 3 and spec['motor']['i0'] is not None:
        # the duty cycle wanders INSIDE the dead zone (|D| <= i0/imax: zero torque, current D*imax): consecutive timer windows
        # with different small values, so that the torque repeats (0) while the duty cycle, and hence the current, changes
        q_ = GEN.qsi
        b_ = q_(spec['motor']['i0']) / q_(spec['motor']['imax'])
        if b_ > 0:
            dts_, n_ = spec['_ref']['dt_si'], spec['_ref']['n']
            w_ = max(2, n_ // 5)
            spec['rules'] = [{'type': 'const', 'start': GEN.Q('Time', GEN.sig((j_ * w_ + 0.5) * dts_, 12), 'sec'), 'dur': GEN.Q('TimeInterval', GEN.sig((w_ - 1) * dts_, 12), 'sec'),
                              'value': GEN.sig(f_ * b_, 6)} for j_, f_ in enumerate([0.9, -0.4, 0.25, 0.0, -0.8])]
            ctx.count('simulations_with_the_duty_cycle_inside_the_dead_zone')
    SC.simulate_and_monitor(ctx, spec, {'kind': 'sim', 'index': i}, [sim_monitor])


def shard(ctx):
    for i in ctx.my_cases(n_cases(ctx.tier)):
        one_motor(ctx, i, ctx.tier)
    for i in ctx.my_cases(160 if ctx.tier == 'quick' else 6000):
        sim_case(ctx, i)


def replay(ctx, case):
    if case.get('kind') == 'sim':
        sim_case(ctx, case['index'])
    else:
        one_motor(ctx, case['index'], ctx.tier)
