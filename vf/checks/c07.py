"""C07 -- results do not depend on the units inputs are expressed in (metamorphic pair monitor)."""
import copy
import math
from ..ref import si as SI
from ..sim import gen as GEN, build as B, mon as MON
from . import simcommon as SC
from . import c12 as C12
from . import c15 as C15
from ..sim import cells as CE

PROPERTY = 'C07'
RULE = ('each baseline scenario (random chain, loads, initial conditions, dt / T, optional ConstantPWM / ReachAngularPosition / StartLimitCurrent rule, optional stop '
        'condition, optional continuation) is executed in its home units and in 3 variants in which every input quantity is re-expressed (same magnitude, harness own '
        'conversion) in another unit of its kind; the unit choice is a covering design so that every unit of every kind is used for every input role; dt and T in '
        'different units; the torque unit returned by the load function varies too. Success/failure (exception class) and every recorded history, the time axis and '
        'the stop instant must agree at 1e-9. Baselines with a near-threshold discrete decision are excluded (the property own exclusion). '
        'non-trivial = >= 3 inputs re-expressed in a different unit; distinct by unit-assignment vector')
ASSUMPTIONS = ['re-expression uses the harness SI table (exact rationals), never the library to()', 'histories compared in SI at 1e-9 relative with a floor of 1e-9 of the series maximum',
               'near-threshold zone includes the library absolute 1e-12 tolerance in the coarsest unit of the kind (defect D9 is recorded under C05 and as C07 known finding D9-c07)']
HEADLINE = ['baselines', 'pairs_compared', 'reexpressed_quantities', 'excluded_near_threshold', 'failure_class_agreements', 'stopped_baselines', 'controlled_baselines',
            'continued_baselines', 'instants_compared']
EQ_PHRASES = ('have different modules', 'different helix angles', 'different pressure angles', "for parameter 'pressure_angle' not")


def floors(tier):
    return {'baselines': 120, 'pairs_compared': 350, 'reexpressed_quantities': 4000, 'stopped_baselines': 20, 'controlled_baselines': 30, 'continued_baselines': 20,
            'set:role_unit': 212, 'set:nontrivial': 300}


def n_cases(tier):
    return 240 if tier == 'quick' else 6000


def quantities(spec):
    """(role, container, key) for every input quantity of the scenario"""
    out = []
    m = spec['motor']
    for k in ('J', 'w0', 'Tmax', 'i0', 'imax'):
        if m.get(k) is not None:
            out.append(('motor.' + k, m, k))
    for e in spec['chain']:
        for k in ('J', 'module', 'face_width', 'E', 'helix', 'pa', 'd'):
            if e.get(k) is not None:
                out.append((e['type'] + '.' + k, e, k))
    out.append(('ic.pos', spec['ic'], 'pos'))
    out.append(('ic.speed', spec['ic'], 'speed'))
    for r in spec.get('rules', []):
        for k in ('start', 'dur', 'target', 'brake', 'limit'):
            if r.get(k) is not None:
                out.append((f'rule.{r["type"]}.{k}', r, k))
    if spec.get('stop'):
        out.append(('stop.thr.' + spec['stop']['sensor'], spec['stop'], 'thr'))
    for j, op in enumerate(spec['schedule']):
        if op['op'] == 'run':
            out.append(('run.dt', op, 'dt'))
            out.append(('run.T', op, 'T'))
    return out


def variant(spec, vi, ci, ctx):
    sp = copy.deepcopy(spec)
    n_changed = 0
    vec = []
    for ri, (role, cont, key) in enumerate(quantities(sp)):
        q = cont[key]
        us = SI.units(q['k'])
        # the position of the quantity in the scenario enters through a mixing term as well: a plain multiple of ri gives two
        # mated gears (whose quantities lie a fixed distance apart) the SAME length unit in every variant
        u = us[(ci * 3 + vi + ri * 5 + (ri * ri) // 3 + hash_role(role)) % len(us)]
        if q['k'] in ('Time', 'TimeInterval') and q['v'] != 0 and abs(GEN.qsi(q)) / SI.FACT['Time'][u] < 1e-6:
            # a time value below 1e-6 in its unit enters the zone of the library's absolute 1e-12 comparison tolerance
            # (defect D9, recorded under C05): that unit is left to baselines with slower dynamics
            ctx.count('time_units_skipped_d9_zone')
            u = q['u']
        if u != q['u']:
            cont[key] = GEN.reexpress(q, u)
            n_changed += 1
        ctx.seen('role_unit', f'{role}|{u}')
        vec.append(u)
    tu = SI.units('Torque')
    sp['load']['unit'] = tu[(ci * 3 + vi) % len(tu)]
    ctx.seen('role_unit', 'load.returned|' + sp['load']['unit'])
    return sp, n_changed, '/'.join(vec)


def hash_role(role):
    return sum(ord(c) for c in role)


def baseline(rng, i):
    prof = dict(p_continue=0.0, p_reset=0.0, n_lo=10, n_hi=45, p_struct=0.7, p_selflock=0.2, max_stages=3, p_currents=0.75, p_noload_start=0.0)
    spec = GEN.gen_scenario(rng, prof)
    spec['_any_unit'] = True
    n = spec['_ref']['n']
    kind = i % 6
    if kind == 1:
        C12.half_step_rules(rng, spec, n)
    elif kind == 2 and spec['motor']['i0'] is not None:
        spec['rules'] = [C15.make_rule(rng, spec, 'startlim', sim=True)]
    elif kind == 3:
        spec['rules'] = [C15.make_rule(rng, spec, 'reach', sim=True)]
    elif kind == 4:
        SC.add_stop(rng, spec)
    elif kind == 5:
        dt = spec['schedule'][0]['dt']
        n2 = rng.randint(3, 15)
        spec['schedule'].append({'op': 'run', 'dt': dict(dt), 'T': GEN.mulq(dt, n2)})
        if rng.random() < 0.6:
            # timer windows reaching into the continuation (whose step the variants write in another unit)
            C12.half_step_rules(rng, spec, n + n2)
    return spec


def execute(spec):
    try:
        b = B.build(spec)
    except Exception as ex:
        return None, [], None, (type(ex).__name__, str(ex)[:200], 'build')
    runs = B.run_schedule(b)
    exc = next((r['exc'] + ('run',) for r in runs if r['exc']), None)
    return b, runs, B.extract(b), exc


def near_threshold_baseline(spec, b, runs, tr):
    """True if any discrete decision recorded in the baseline lies within rounding distance of its threshold"""
    ana = MON.Ana(spec, tr, runs)
    if any(inf and inf['near'] for inf in ana.info[:ana.N]):
        return 'lock'
    q = GEN.qsi
    m = spec['motor']
    if m['i0'] is not None:
        bnd = q(m['i0']) / q(m['imax'])
        for D in tr.pwm:
            if abs(abs(D) - bnd) <= 1e-9 * max(abs(D), bnd, 1e-300) and not (D == 0 and bnd == 0):
                return 'dead-zone'
    # stop condition
    st = spec.get('stop')
    if st:
        var = {'enc': 'angular position', 'tach': 'angular speed', 'amp': 'electric current'}[st['sensor']]
        kind = st['thr']['k']
        thr = q(st['thr'])
        fmax = max(SI.FACT[kind].values())
        for v in tr.els[st['elem']]['vars'][var]:
            if abs(v - thr) <= 1e-9 * max(abs(v), abs(thr)) + 4e-12 * fmax:
                return 'stop'
    # rule windows
    nums = GEN.chain_numbers(spec)
    M = tr.els[0]['vars']
    for r in spec.get('rules', []):
        for k in range(min(tr.n, len(M['load torque']))):
            stt = {'t': tr.time[k], 't_unit': 'hour', 'pos': [e['vars']['angular position'][k] for e in tr.els], 'pos_unit': 'rot',
                   'speed': [e['vars']['angular speed'][k] for e in tr.els], 'T_load_motor': M['load torque'][k], 'T_load_first': M['load torque'][0]}
            if C15.reference(spec, nums, r, stt)[0] == 'near':
                return 'rule-window'
    # StartLimitCurrent far beyond the no-load speed: its root (s + e + sqrt(...))/2 cancels catastrophically and the motor law
    # amplifies the rounding of D by |w/(D w0)|; histories then differ by more than 1e-9 between *any* two roundings of the same
    # input (ill-conditioned, not unit-dependent). Also duty cycles that are rounding residue around zero.
    w0 = q(m['w0'])
    if any(r['type'] == 'startlim' for r in spec.get('rules', [])):
        if any(abs(w) > 3 * w0 for w in M['angular speed']) or any(0 < abs(D) < 1e-9 for D in tr.pwm):
            return 'ill-conditioned-limit-current-root'
    return None


def d9_consequence(sp, exc):
    """classifier of the known finding: an equality validation of the library rejected two quantities of the same magnitude
    that are written in different units, and the documented absolute-1e-12 rule (left operand's unit) says 'different'"""
    if exc is None or exc[0] != 'ValueError' or exc[2] != 'build' or not any(p in exc[1] for p in EQ_PHRASES):
        return False
    els = [sp['motor']] + sp['chain']
    pairs = []
    for prev, e in zip(els, els[1:]):
        if e['rel']['type'] == 'gear':
            for k in ('module', 'helix'):
                if prev.get(k) and e.get(k):
                    pairs.append((prev[k], e[k]))
        if e['rel']['type'] == 'worm':
            pairs.append((prev['pa'], e['pa']))
    for e in els:
        if e.get('pa'):
            for deg in (14.5, 20.0, 25.0, 30.0):
                if abs(GEN.qsi(e['pa']) - math.radians(deg)) < 1e-6:
                    pairs.append((e['pa'], GEN.Q('Angle', deg, 'deg')))
    for a, b in pairs:
        sa, sb = GEN.qsi(a), GEN.qsi(b)
        if a['u'] != b['u'] and abs(sa - sb) <= 8 * max(math.ulp(sa), math.ulp(sb)):
            b_in_a = SI.convert(a['k'], b['v'], b['u'], a['u'])
            noise = 8 * max(math.ulp(a['v']), math.ulp(b_in_a))
            if abs(a['v'] - b_in_a) + noise >= 1e-12:
                return True
    return False


def one(ctx, i):
    rng = ctx.rng('case', i)
    case = {'kind': 'c07', 'index': i}
    spec = baseline(rng, i)
    b0, r0, t0, e0 = execute(spec)
    if e0 is None:
        why = near_threshold_baseline(spec, b0, r0, t0)
        if why:
            ctx.count('excluded_near_threshold')
            ctx.seen('exclusion_reasons', why)
            return
        if not all(math.isfinite(x) for e in t0.els for s in e['vars'].values() for x in s):
            ctx.count('excluded_overflow')
            return
    ctx.count('baselines')
    if spec.get('stop'):
        ctx.count('stopped_baselines')
    if spec.get('rules'):
        ctx.count('controlled_baselines')
    if len(spec['schedule']) > 1:
        ctx.count('continued_baselines')
    for vi in range(3):
        sp, n_changed, vec = variant(spec, vi, i, ctx)
        ctx.count('reexpressed_quantities', n_changed)
        ctx.count('evaluations')
        b1, r1, t1, e1 = execute(sp)
        wit = {'variant': vi, 'changed_quantities': n_changed, 'baseline_exception': e0, 'variant_exception': e1,
               'units': {role: cont[key]['u'] for role, cont, key in quantities(sp)}}
        if (e0 is None) != (e1 is None) or (e0 and e1 and e0[0] != e1[0]):
            if e0 is None and d9_consequence(sp, e1):
                ctx.known_finding('D9-c07', wit, dict(case, variant=vi))
                continue
            ctx.violation('C07:success-depends-on-units', wit, dict(case, variant=vi))
            return
        if e0 is not None:
            ctx.count('failure_class_agreements')
            continue
        ctx.count('pairs_compared')
        ctx.count('instants_compared', t0.n)
        diff = C12.compare_traces(t0, t1)
        if diff:
            diff.update(wit)
            ctx.violation('C07:history-depends-on-units', diff, dict(case, variant=vi))
            return
        # snapshots are physical outputs too: one snapshot of the variant (between two instants, target time in a unit of its own)
        # judged by the cell oracle on the variant's own recorded history
        if t1.n >= 3:
            k = rng.randrange(t1.n - 1)
            tu = SI.units('Time')[(i + vi) % 4]
            tq = GEN.Q('Time', SI.from_si('Time', 0.5 * (t1.time[k] + t1.time[k + 1]), tu), tu)
            nv = len(ctx.violations)
            if not CE.check_snapshot(ctx, b1, t1, tq, None, CE.random_units(rng), dict(case, variant=vi)):
                for v in ctx.violations[nv:]:
                    v['monitor'] = 'C07:' + v['monitor'] + ' (inputs re-expressed)'
                return
        if n_changed >= 3:
            ctx.seen('nontrivial', vec)
    if len(ctx.samples) < 2 and e0 is None:
        ctx.sample({'topology': SC.topo_signature(spec), 'baseline_units': {role: cont[key]['u'] for role, cont, key in quantities(spec)},
                    'last_variant_units': wit['units'], 'instants': t0.n, 'output_speed_baseline_last': t0.els[-1]['vars']['angular speed'][-1],
                    'output_speed_variant_last': t1.els[-1]['vars']['angular speed'][-1] if t1 else None})


def finalize(cov, merged):
    n = len(merged['sets'].get('role_unit', ()))
    cov['role_unit_combinations_covered'] = n
    cov['role_unit_combinations_total'] = 223
    cov['exhaustive'] = n == 223
    cov['exhaustive_dimension'] = 'input role x unit of its kind (223 combinations); unit assignments themselves are sampled'


def shard(ctx):
    for i in ctx.my_cases(n_cases(ctx.tier)):
        one(ctx, i)


def replay(ctx, case):
    one(ctx, case['index'])
