"""Shared driver for the simulation-level trace properties (C01, C02, C03, C13)."""
import math
from ..sim import gen as GEN, build as B, mon as MON
from ..ref import si as SI


def general_scenario(rng, i, tier, extra_prof=None):
    """the common workload: a mixture of profiles so that every regime is reached in every run"""
    m = i % 8
    prof = dict(extra_prof or {})
    if tier == 'thorough':
        prof['max_stages'] = rng.choice([2, 3, 4, 5])
    force = None
    if m == 0:                      # self-locking chains with overload: "held still" instants
        force = True
        prof.update(p_overload=0.6, p_big_overload=0.3, p_ic_zero=0.5, p_control=1.0)
        if rng.random() < 0.2:
            # a creeping start: a very heavy output and a very fine step, so that the first recorded speeds are of the order of
            # 1e-9 .. 1e-6 rad/s (the coupling is a product: it holds to rounding at ANY magnitude)
            prof.update(heavy_output=1e6, kdt_lo=1e-10, kdt_hi=1e-8, p_ic_zero=1.0, p_overload=0.0, p_big_overload=0.0, n_lo=6, n_hi=20, p_int_inertias=0.0)
    elif m == 1:                    # long chains
        prof.update(max_stages=5 if tier == 'quick' else 6)
    elif m == 2:                    # continued runs
        prof.update(p_continue=1.0)
    elif m == 3:
        prof.update(p_reset=1.0)
    coast = m == 5 and rng.random() < 0.4
    if coast:
        # coasting: a free (not self-locking) chain with the motor switched off (duty cycle inside the dead zone, so the
        # driving torque is exactly zero) and a load that is exactly zero for (part of) the run: zero net torque while moving
        force = False
        prof.update(p_currents=1.0, p_ic_zero=0.0, p_speed_load=0.0, p_pos_load=0.0, p_time_load=0.0, p_worm=0.0)
    spec = GEN.gen_scenario(rng, prof, force_selflock=force)
    if coast:
        spec['load'].update(A=0.0, B=0.0, C=0.0, S=0.0, W=0.0)
        spec['load'].pop('units_cycle', None)
        if spec['load'].get('step_t') is None and rng.random() < 0.5:
            spec['load'].update(step_t=spec['_ref']['dt_si'] * (rng.randint(2, 5) + 0.5), step_A=GEN.sig(0.3 * spec['_ref']['T_out'], 3))
        if rng.random() < 0.5:
            spec['ic']['pwm'] = rng.choice([0, 0.0, 0])
        else:
            # driven first, switched off in the middle of the run by a timer rule (and possibly on again): the net torque
            # BECOMES exactly zero while the chain is moving
            ref_ = spec['_ref']
            k0 = rng.randint(2, max(3, ref_['n'] // 2)) + 0.5
            k1 = rng.choice([3 * ref_['n'], rng.randint(2, max(3, ref_['n'] // 3))])
            spec['rules'] = [{'type': 'const', 'start': GEN.Q('Time', GEN.sig(k0 * ref_['dt_si'], 12), 'sec'),
                              'dur': GEN.Q('TimeInterval', GEN.sig(k1 * ref_['dt_si'], 12), 'sec'), 'value': rng.choice([0, 0.0])}]
        spec['coasting'] = True
        return spec
    if m == 7 and rng.random() < 0.35 and not GEN.chain_numbers(spec)['self_locking']:
        # a free chain standing still with the motor off and no load; then ANOTHER Solver object takes over and a load starts
        # acting: acceleration = net torque / J from the first instant on (nothing holds a chain without self-locking)
        spec['load'].update(A=0.0, B=0.0, C=0.0, S=0.0, W=0.0, step_t=None, step_A=0.0)
        spec['load'].pop('P', None)
        spec['load'].pop('units_cycle', None)
        spec['ic'] = dict(spec['ic'], pos=GEN.Q('AngularPosition', 0.0, 'rad'), speed=GEN.Q('AngularSpeed', 0.0, 'rad/s'), pwm=0)
        dt_ = spec['schedule'][0]['dt']
        l2_ = dict(spec['load'], A=GEN.sig(0.5 * spec['_ref']['T_out'], 4))
        spec['schedule'] = [{'op': 'run', 'dt': dt_, 'T': GEN.mulq(dt_, rng.randint(4, 12))}, {'op': 'swapsolver'}, {'op': 'setload', 'load': l2_},
                            {'op': 'run', 'dt': dt_, 'T': GEN.mulq(dt_, rng.randint(6, 20))}]
        spec['rules'] = []
        spec['takeover'] = True
        return spec
    if m in (0, 4, 5) or rng.random() < 0.2:
        GEN.add_const_rules(rng, spec)
    if m == 6:                      # early stop on the output position / speed / motor current
        add_stop(rng, spec)
        if rng.random() < 0.6:
            # the runs after the first one are issued WITHOUT the stop condition: a history that was stopped early is continued
            # for its whole duration (with the condition still in force the continuation ends after one instant)
            for o_ in [o_ for o_ in spec['schedule'] if o_['op'] == 'run'][1:]:
                o_['stop'] = False
    if m in (3, 7) and rng.random() < 0.6:
        # position- / speed-keyed rules (duty cycles that vary from instant to instant)
        from . import c15 as C15
        kinds = ['reach', 'startprop'] + (['startlim'] if spec['motor']['i0'] is not None else [])
        if spec['motor']['i0'] is None:
            kinds = ['reach']
        spec['rules'].append(C15.make_rule(rng, spec, rng.choice(kinds), sim=True))
    return spec


def add_stop(rng, spec):
    n_el = len(spec['chain']) + 1
    kind = rng.choice(['enc', 'tach'] + (['amp'] if spec['motor']['i0'] is not None else []))
    idx = 0 if kind == 'amp' else rng.randrange(n_el)
    ref = spec['_ref']
    ratios = GEN.chain_numbers(spec)['r']
    g_to_last = math.prod(ratios[idx:]) if idx < len(ratios) else 1.0
    if kind == 'enc':
        p0 = GEN.qsi(spec['ic']['pos'])
        thr = (p0 + rng.uniform(0.05, 0.6) * ref['w_out'] * ref['dt_si'] * ref['n'] * rng.choice([1, 1, -1])) * g_to_last
        q = GEN.Q('AngularPosition', GEN.sig(thr / SI.FACT['AngularPosition']['rad'], 6), 'rad')
        q = GEN.reexpress(q, rng.choice(SI.units('AngularPosition')))
        op = rng.choice(['ge', 'gt', 'le', 'lt'])
    elif kind == 'tach':
        thr = rng.uniform(-0.2, 0.9) * ref['w_out'] * g_to_last
        q = GEN.reexpress(GEN.Q('AngularSpeed', GEN.sig(thr, 6), 'rad/s'), rng.choice(SI.units('AngularSpeed')))
        op = rng.choice(['ge', 'gt', 'le', 'lt'])
    else:
        imax = GEN.qsi(spec['motor']['imax'])
        q = GEN.reexpress(GEN.Q('Current', GEN.sig(rng.uniform(0.05, 0.95) * imax, 6), 'A'), rng.choice(SI.units('Current')))
        op = rng.choice(['ge', 'gt', 'le', 'lt'])
    spec['stop'] = {'sensor': kind, 'elem': idx, 'op': op, 'thr': q}
    return spec


def topo_signature(spec):
    return '-'.join(e['type'][0:2] + ':' + e['rel']['type'][0] for e in spec['chain'])


def sched_shape(spec):
    return ''.join(o['op'][0:2] for o in spec['schedule']) + ('C' if spec.get('rules') else '') + ('S' if spec.get('stop') else '')


def simulate_and_monitor(ctx, spec, case, monitors, nontrivial=None, key_extra=''):
    """build, run the schedule, feed every captured history to the monitors"""
    ctx.count('scenarios')
    ctx.count('evaluations')
    if ctx.tier == 'thorough' and ctx.prop in ('C01', 'C03'):
        # always-on sanitizer of the thorough tier: the sign-constraint class invariants of C19 are armed inside the simulations
        from . import c19 as C19
        C19.arm()
    try:
        b = B.build(spec)
    except Exception as ex:
        ctx.count('build_failures')
        ctx.violation('harness:valid-scenario-rejected', {'exception': type(ex).__name__, 'message': str(ex)[:300]}, case)
        return None
    ctx.count('constants_converted_in_place_after_assembly', b.touched)
    if spec.get('deepcopy'):
        ctx.count('deep_copied_models')
    ctx.count('elements_of_user_subclasses', sum(1 for e_ in [spec['motor']] + spec['chain'] if e_.get('subclass')))
    ctx.count('rejected_declarations_after_the_design', b.rejected_attempts)
    for _, kind_ in b.prior_design:
        ctx.count('relations_redeclared:' + kind_)
    runs = B.run_schedule(b)
    ctx.current_built = b
    for tr_, rr_ in list(b.captures) + [(None, runs)]:
        for r_ in rr_:
            if r_['exc'] or r_['stop'] or not r_['dt'] > 0:
                continue
            # a run without a stop condition (or with the never-true probe) covers its whole duration, whatever happens in it
            exp_ = int(math.ceil(round(r_['T'] / r_['dt'], 9))) + (1 if r_['fresh'] else 0)
            ctx.count('runs_checked_for_full_duration')
            if r_['n1'] - r_['n0'] != exp_:
                ctx.violation('sanitizer:run-without-stop-condition-did-not-cover-its-duration', {'recorded_instants_of_the_run': r_['n1'] - r_['n0'], 'expected': exp_,
                                                                                                 'dt': r_['dt_q'], 'T': r_['T_q'], 'fresh': r_['fresh'], 'control': r_['control'], 'probe': r_['probe']}, case)
                return None
    if getattr(b, 'modified_run_arguments', None):
        ctx.violation('sanitizer:run-argument-modified-by-the-run', {'arguments': b.modified_run_arguments[:2]}, case)
        return None
    if getattr(b, 'modified_thresholds', None):
        ctx.violation('sanitizer:stop-condition-threshold-modified-by-the-run', {'thresholds': b.modified_thresholds[:2]}, case)
        return None
    ctx.count('rejected_run_calls', getattr(b, 'rejected_runs', 0))
    ctx.count('live_quantities_converted_in_place_between_runs', getattr(b, 'reported', 0))
    ctx.count('runs_issued_through_another_solver_object', getattr(b, 'solver_swaps', 0))
    ctx.count('resets_through_a_new_powertrain_object', getattr(b, 'new_powertrains', 0))
    ctx.count('bystander_model_operations', getattr(b, 'bystander_ops', 0))
    ctx.count('driven_part_mounted_on_a_second_motor', getattr(b, 'remounts', 0))
    if getattr(b, 'mid_schedule_failures', None) and any(x[0].startswith('remount:') for x in b.mid_schedule_failures):
        ctx.violation('harness:remount-rejected', {'failures': b.mid_schedule_failures[:2]}, case)
        return None
    if getattr(b, 'rejected_run_effects', None):
        ctx.violation('sanitizer:rejected-run-left-traces', {'effects': b.rejected_run_effects[:3]}, case)
        return None
    histories = list(b.captures) + [(B.extract(b), runs)]
    if ctx.tier == 'thorough' and ctx.prop in ('C01', 'C03'):
        from . import c19 as C19
        ctx.counters['invariant_evaluations'] = C19.LOG['evals']
        if C19.LOG['bad']:
            ctx.violation('sanitizer:sign-constrained-quantity-invalid-inside-a-simulation', {'log': C19.LOG['bad'][:5]}, case)
            del C19.LOG['bad'][:]
    sig = topo_signature(spec)
    ctx.seen('signatures', sig)
    ctx.seen('elements_in_chain', len(spec['chain']) + 1)
    any_nt = False
    for tr, rr in histories:
        if not rr:
            continue
        for r in rr:
            if r['exc']:
                ctx.count('failed_runs')
                ctx.seen('run_exceptions', r['exc'][0])
                if r['exc'][0] not in ('ValueError',):          # only the documented conflict / stress errors may end a run
                    ctx.violation('sanitizer:unexpected-exception', {'exception': r['exc']}, case)
            elif r['stop'] and (r['n1'] - r['n0']) < expected_steps(r):
                ctx.count('early_stops')
        if not MON.sanitize(ctx, spec, tr, rr, case, ctx.prop):
            continue
        ana = MON.Ana(spec, tr, rr)
        if ana.overflowed:
            ctx.count('overflowed_instants', ana.overflowed)
        early = [r for r in rr if r['stop'] and not r['exc'] and (r['n1'] - r['n0']) < expected_steps(r)]
        if early:
            ctx.count('after_early_stop', sum(1 for r in rr[rr.index(early[0]) + 1:] for _ in range(r['n0'], r['n1'])) + 1)
        for mon in monitors:
            mon(ctx, ana, case)
        if nontrivial and nontrivial(spec, ana):
            any_nt = True
        if len(ctx.samples) < 2 and ana.N > 3:
            ctx.sample({'topology': sig, 'schedule': sched_shape(spec), 'instants': ana.N, 'self_locking': ana.nums['self_locking'],
                        'ratios': ana.nums['r'], 'output_speed_first_5': ana.L['angular speed'][:5],
                        'motor_speed_first_5': ana.M['angular speed'][:5], 'dt': rr[0]['dt_q'], 'T': rr[0]['T_q']})
    if any_nt:
        ctx.seen('nontrivial', sig + '|' + sched_shape(spec) + '|' + key_extra)
    return b


def expected_steps(r):
    n = int(math.ceil(round(r['T'] / r['dt'], 9)))
    return n + (1 if r['fresh'] else 0)
