"""C14 -- duty-cycle arbitration: one rule wins, default 1, always within [-1, 1].

Every rule is wrapped in a recording proxy added through the public PWMControl.add_rule; an icontract
snapshot/ensure pair on PWMControl.apply_rules (record-and-return-True) checks the post-state of every
arbitration round, including those the solver performs; the trace monitor then checks the recorded duty-cycle
history of whole simulations and that a conflict ends the run at exactly the first conflicting instant.
"""
import math
from ..ref import si as SI
from ..ref import rules as RR
from ..sim import gen as GEN, build as B
from . import simcommon as SC

PROPERTY = 'C14'
RULE = ('rule sets of 0..4 rules: ConstantPWM windows (overlapping or not), ReachAngularPosition, StartProportionalToAngularPosition, StartLimitCurrent '
        'and synthetic rules proposing arbitrary finite values (+-5, +-1e6, ints, numpy floats, exact 0) or nothing per call; standalone apply_rules '
        'calls on random states and whole simulations (fresh and continued, with the control passed per run). Each arbitration round: motor.pwm after = '
        'clip(single proposal) / 1 with none / ValueError with >= 2; each recorded duty cycle = the arbitration of the proposals logged for that instant and '
        'lies in [-1, 1]; a conflict ends the run at exactly that instant. non-trivial = >= 2 rules with a window boundary inside the run; distinct by rule-kind multiset x outcome pattern')
ASSUMPTIONS = ['proposals observed at the RuleBase.apply boundary through proxies registered with add_rule', 'NaN proposals (StartLimitCurrent below the no-load current) are outside "finite proposed values": counted, not judged']
HEADLINE = ['rounds', 'rounds_0_proposals', 'rounds_1_proposal', 'rounds_conflict', 'clipped', 'standalone_rounds', 'simulations', 'instants', 'conflict_runs',
            'continued_runs_with_control', 'ensure_evaluations', 'zero_proposals']
STATE = {'b': None, 'evals': 0, 'bad': []}


class PostBroken(Exception):
    pass


def n_logged(self):
    b = STATE['b']
    return len(b.rule_log) if b is not None else 0


def pwm_is_arbitration_of_proposals(self, OLD):
    """post-state of apply_rules vs the proposals its rules made during this call (records, never raises)"""
    b = STATE['b']
    if b is None:
        return True
    STATE['evals'] += 1
    props = [v for (_, _, v) in b.rule_log[OLD.n:]]
    if any(isinstance(p, float) and p != p for p in props):
        return True
    exp = RR.arbitrate(props)
    got = b.motor.pwm
    if exp[0] == 'conflict':
        STATE['bad'].append({'proposals': props, 'expected': 'ValueError', 'pwm_after': got})
    elif not (got == exp[1] and -1 <= got <= 1):
        STATE['bad'].append({'proposals': props, 'expected': exp[1], 'pwm_after': got})
    return True


_armed = False


def arm():
    global _armed
    if _armed:
        return
    import icontract
    from gearpy.motor_control import PWMControl
    wrapped = icontract.snapshot(n_logged, name='n')(icontract.ensure(pwm_is_arbitration_of_proposals, error=PostBroken)(PWMControl.apply_rules))
    PWMControl.apply_rules = wrapped
    _armed = True


def floors(tier):
    return {'rounds': 10000, 'rounds_0_proposals': 1500, 'rounds_1_proposal': 3000, 'rounds_conflict': 100, 'clipped': 300, 'standalone_rounds': 2000,
            'simulations': 300, 'conflict_runs': 60, 'continued_runs_with_control': 60, 'reruns_with_same_control': 30, 'ensure_evaluations': 8000, 'zero_proposals': 100, 'set:nontrivial': 40}


def n_cases(tier):
    return 3200 if tier == 'quick' else 60000


_SR = None


def SynthRule(script):
    global _SR
    if _SR is None:
        class _Synth(B.g().RuleBase):
            def __init__(self, script):
                super().__init__()
                self.script, self.i = script, 0

            def apply(self):
                v = self.script[self.i % len(self.script)]
                self.i += 1
                return v
        _SR = _Synth
    return _SR(script)


def synth_script(rng, n):
    import numpy as np
    vals = [None, None, None, 0.3, -0.7, 1, -1, 0, 0.0, 5, -5, 1e6, -1e6, 1.0000001, np.float64(0.25), np.float64(-3.5), 2]
    if rng.random() < 0.7:
        # window-like: None ... values ... None
        a, bb = sorted(rng.sample(range(n + 2), 2))
        v = rng.choice(vals[3:])
        return [v if a <= k < bb else None for k in range(n + 2)]
    return [rng.choice(vals) if rng.random() < 0.35 else None for _ in range(n + 2)]


def make_spec(rng, i):
    prof = dict(p_currents=1.0, p_continue=0.0, p_reset=0.0, n_lo=10, n_hi=40, max_stages=2, p_selflock=0.1)
    spec = GEN.gen_scenario(rng, prof)
    n = spec['_ref']['n']
    ref = spec['_ref']
    k = [0, 1, 2, 2, 3, 4][i % 6]
    kinds = []
    cursor = [0]
    n_el = len(spec['chain']) + 1
    pos0 = GEN.qsi(spec['ic']['pos'])
    reach = abs(ref['w_out'] * ref['dt_si'] * n) + 1e-3
    for _ in range(k):
        t = rng.choice(['const', 'const', 'synth', 'synth', 'reach', 'startprop', 'startlim'])
        kinds.append(t)
        if t == 'const':
            GEN.add_const_rules(rng, spec, n_rules=1, allow_overlap=True)
            r = spec['rules'][-1]
            # random placement anywhere (overlaps with earlier rules are wanted here), or one after the other
            if i % 2:
                t0 = rng.randint(0, n)
                d = rng.randint(1, n)
            else:
                t0 = cursor[0] + rng.randint(0, 3)
                d = rng.randint(1, max(2, n // 3))
                cursor[0] = t0 + d + 1
            dt0 = spec['schedule'][0]['dt']
            r['start'] = GEN.reexpress(GEN.Q('Time', GEN.mulq(dt0, t0)['v'] if t0 else 0.0, dt0['u']), rng.choice(GEN.time_units_for(GEN.qsi(dt0))))
            r['dur'] = GEN.reexpress(GEN.mulq(dt0, d), rng.choice(GEN.time_units_for(GEN.qsi(dt0))))
        elif t == 'synth':
            spec['rules'].append({'type': 'synth', 'script': None})
        elif t == 'reach':
            spec['rules'].append({'type': 'reach', 'enc': rng.randrange(n_el), 'target': GEN.Q('AngularPosition', GEN.sig(pos0 + rng.uniform(0.2, 1.5) * reach, 5), 'rad'),
                                  'brake': GEN.Q('Angle', GEN.sig(rng.uniform(0.05, 0.6) * reach, 4), 'rad')})
        elif t == 'startprop':
            spec['rules'].append({'type': 'startprop', 'enc': rng.randrange(n_el), 'target': GEN.Q('AngularPosition', GEN.sig(pos0 + rng.uniform(0.1, 0.8) * reach, 5), 'rad'),
                                  'mult': GEN.sig(rng.uniform(1.1, 4), 3), 'pwm_min': 0.2})
        else:
            imax = GEN.qsi(spec['motor']['imax'])
            i0 = GEN.qsi(spec['motor']['i0'])
            spec['rules'].append({'type': 'startlim', 'enc': rng.randrange(n_el), 'tach': 0, 'target': GEN.Q('AngularPosition', GEN.sig(pos0 + rng.uniform(0.1, 0.8) * reach, 5), 'rad'),
                                  'limit': GEN.Q('Current', GEN.sig(i0 + rng.uniform(0.1, 0.9) * (imax - i0), 4), 'A')})
    if k == 0 and rng.random() < 0.7:
        spec['empty_control'] = True          # a control object without rules: the default duty cycle 1 must be applied
        if rng.random() < 0.5:
            spec['ic']['pwm'] = rng.choice([0.5, -1, 0])
    return spec, n, kinds


def build_with_synth(spec, rng, n):
    """B.build handles the built-in kinds; synthetic rules are spliced in at their position"""
    rules = spec['rules']
    sp = dict(spec, rules=[r for r in rules if r['type'] != 'synth'])
    b = B.build(sp)
    if (rules or spec.get('empty_control')) and b.control is None:
        b.control = B.g().mc.PWMControl(powertrain=b.pt)
    if b.control is not None:
        # rebuild the control in declared order with recording proxies
        ctl = B.g().mc.PWMControl(powertrain=b.pt)
        it = iter(b.rules)
        b.rules_all = []
        for r in rules:
            inner = SynthRule(synth_script(rng, n * 2 + 30)) if r['type'] == 'synth' else next(it)
            b.rules_all.append(inner)
            proxy_ = B.RecordingRule(inner, b)
            ctl.add_rule(proxy_)
            if spec.get('same_rule_twice') and len(b.rules_all) == 1:
                # the user adds the SAME rule object a second time: the list has two entries, and whenever that rule is
                # applicable two rules are (documented ValueError)
                ctl.add_rule(proxy_)
                b.rules_all.append(inner)
        b.control = ctl
    return b


def rounds_of(b, n_rules, start=0):
    log = b.rule_log[start:]
    return [log[j:j + n_rules] for j in range(0, len(log) - len(log) % n_rules, n_rules)] if n_rules else []


def standalone(ctx, i, rng, case):
    """direct apply_rules calls on hand-set states"""
    spec, n, kinds = make_spec(rng, i)
    if not spec['rules']:
        spec['rules'].append({'type': 'synth', 'script': None})
    if i % 9 == 5:
        spec['same_rule_twice'] = True
        ctx.count('controls_with_the_same_rule_added_twice')
    b = build_with_synth(spec, rng, n)
    STATE['b'] = b
    un = B.g().un
    nr = len(spec['rules']) + (1 if spec.get('same_rule_twice') else 0)
    if spec.get('same_rule_twice'):
        kinds = [kinds[0]] + list(kinds)
    live = None
    ref = spec['_ref']
    for j in range(30):
        # a state: time axis entry, position and speed of every element via the last one and the ratios
        b.pt.update_time(un.Time(j * ref['dt_si'] * rng.choice([1, 1, 3]), 'sec')) if j == 0 or rng.random() < 0.7 else None
        nums = GEN.chain_numbers(spec)
        th = GEN.qsi(spec['ic']['pos']) + rng.uniform(-0.5, 2) * abs(ref['w_out'] * ref['dt_si'] * n)
        w = rng.uniform(-0.2, 1.2) * ref['w_out']
        for k in range(len(b.elements) - 1, -1, -1):
            g = math.prod(nums['r'][k:])
            b.elements[k].angular_position = un.AngularPosition(th * g, 'rad')
            b.elements[k].angular_speed = un.AngularSpeed(w * g, 'rad/s')
        b.motor.load_torque = un.Torque(rng.uniform(-0.5, 0.9) * GEN.qsi(spec['motor']['Tmax']), 'Nm')
        if j == 15 and i % 4 == 1 and nr >= 1:
            # the rule set is edited through the public `rules` list ("the rules to be applied"): one rule is taken out,
            # or the order is reversed; from now on exactly the rules in that list are the rule set
            if rng.random() < 0.7:
                del b.control.rules[rng.randrange(len(b.control.rules))]
                ctx.count('rules_removed_through_the_rules_list')
            else:
                b.control.rules.reverse()
            live = [id(r_.inner) for r_ in b.control.rules]
            nr = len(live)
            kinds = kinds + ['(rules list edited)']
        before = len(b.rule_log)
        pwm_before = b.motor.pwm
        try:
            b.control.apply_rules()
            out = None
        except ValueError as ex:
            out = 'ValueError'
        except Exception as ex:
            ctx.violation('C14:apply_rules-raised', {'exception': type(ex).__name__ + ': ' + str(ex)[:150], 'rules': kinds}, case)
            return
        props = [v for (_, _, v) in b.rule_log[before:]]
        if live is not None and sorted(set(x for (_, x, _) in b.rule_log[before:])) != sorted(set(live)):
            ctx.violation('C14:rules-consulted-are-not-the-rules-list', {'rules_in_list': nr, 'distinct_rules_consulted': len(set(x for (_, x, _) in b.rule_log[before:])), 'rules': kinds}, case)
            return
        if nr == 0:
            if props:
                ctx.violation('C14:rules-consulted-are-not-the-rules-list', {'rules_in_list': 0, 'calls': len(props)}, case)
                return
        elif len(props) < nr or len(props) % nr:
            ctx.violation('C14:rule-not-consulted', {'rules': nr, 'calls': len(props)}, case)
            return
        props = props[len(props) - nr:] if nr else []
        judge_round(ctx, props, out, b.motor.pwm, case, 'standalone', kinds)
        ctx.count('standalone_rounds')
    flush_ensure(ctx, case)


def judge_round(ctx, props, out, pwm_after, case, where, kinds):
    ctx.count('rounds')
    ctx.count('evaluations')
    if any(isinstance(p, float) and p != p for p in props):
        ctx.observe('NaN proposal (StartLimitCurrent outside its domain)', {'proposals': props})
        return 'nan'
    exp = RR.arbitrate(props)
    nv = sum(p is not None for p in props)
    ctx.count('rounds_conflict' if nv >= 2 else ('rounds_1_proposal' if nv == 1 else 'rounds_0_proposals'))
    if any(p is not None and p == 0 for p in props):
        ctx.count('zero_proposals')
    if exp[0] == 'conflict':
        if out != 'ValueError':
            ctx.violation('C14:conflict-not-raised', {'proposals': props, 'pwm_after': pwm_after, 'where': where, 'rules': kinds}, case)
            return 'bad'
        return 'conflict'
    if out == 'ValueError':
        ctx.violation('C14:spurious-ValueError', {'proposals': props, 'where': where, 'rules': kinds}, case)
        return 'bad'
    if nv == 1 and abs([p for p in props if p is not None][0]) > 1:
        ctx.count('clipped')
    if not (pwm_after == exp[1] and -1 <= pwm_after <= 1):
        ctx.violation('C14:wrong-duty-cycle', {'proposals': props, 'expected': exp[1], 'pwm_after': pwm_after, 'where': where, 'rules': kinds}, case)
        return 'bad'
    return 'ok'


def flush_ensure(ctx, case):
    ctx.count('ensure_evaluations', STATE['evals'])
    STATE['evals'] = 0
    if STATE['bad']:
        ctx.violation('C14:postcondition-of-apply_rules', STATE['bad'][0], case)
        del STATE['bad'][:]


def simulation(ctx, i, rng, case):
    spec, n, kinds = make_spec(rng, i)
    dt = spec['schedule'][0]['dt']
    continued = i % 4 == 1
    rerun = i % 8 == 7
    if rerun:
        # the same control object used again after reset (the arbitration must not remember the first history)
        spec['schedule'] = [{'op': 'run', 'dt': dt, 'T': GEN.mulq(dt, n)}, {'op': 'reset'}, {'op': 'reapply'}, {'op': 'run', 'dt': dt, 'T': GEN.mulq(dt, max(3, n // 2))}]
    if continued:
        # first segment without control, second with it (the control is an argument of each run call)
        n1 = rng.randint(3, max(4, n // 2))
        spec['schedule'] = [{'op': 'run', 'dt': dt, 'T': GEN.mulq(dt, n1), 'control': rng.random() < 0.3}, {'op': 'run', 'dt': dt, 'T': GEN.mulq(dt, n)}]
        if rng.random() < 0.4:
            # ... and a third one without it again, on the same solver: nothing may touch the duty cycle there
            spec['schedule'].append({'op': 'run', 'dt': dt, 'T': GEN.mulq(dt, rng.randint(3, 8)), 'control': False})
    try:
        b = build_with_synth(spec, rng, n)
    except Exception as ex:
        ctx.violation('harness:valid-scenario-rejected', {'exception': type(ex).__name__ + ': ' + str(ex)[:200], 'rules': kinds}, case)
        return
    STATE['b'] = b
    runs = B.run_schedule(b)
    tr = B.extract(b)
    ctx.count('simulations')
    nr = len(spec['rules'])
    pwm = tr.pwm
    log_pos = getattr(b, 'rule_log_mark', 0)
    if rerun and getattr(b, 'rule_log_mark', None) is not None:
        ctx.count('reruns_with_same_control')
    k = 0                      # instant index being arbitrated
    outcome_pattern = []
    for r in runs:
        first = r['n0'] if r['fresh'] else r['n0']
        n_inst = r['n1'] - r['n0']          # time entries added by this run (fresh: includes instant 0)
        if not r['control']:
            # without control nothing may touch the duty cycle
            for kk in range(r['n0'], min(r['n1'], len(pwm))):
                if pwm[kk] != r['pwm_before']:
                    ctx.violation('C14:duty-cycle-changed-without-control', {'instant': kk, 'pwm': pwm[kk], 'pwm_before_run': r['pwm_before']}, case)
                    return
            continue
        if continued and r is runs[-1]:
            ctx.count('continued_runs_with_control')
        # proposals grouped by the instant at which they were made; the *last* complete round at an instant is the deciding
        # one (how many rounds an implementation runs per instant is an observation, not part of the statement)
        by_instant = {}
        for (nt, rid, v) in b.rule_log[log_pos:]:
            by_instant.setdefault(nt - 1, []).append(v)
        used = 0
        for kk in range(r['n0'], r['n1']):
            ctx.count('instants')
            if nr == 0:
                props = []
            else:
                logged = by_instant.get(kk, [])
                if len(logged) < nr:
                    ctx.violation('C14:instant-without-arbitration-round', {'instant': kk, 'proposals_logged_at_instant': len(logged), 'rules': kinds}, case)
                    return
                if len(logged) > nr:
                    ctx.observe('more than one arbitration round per instant', {'instant': kk, 'proposals_logged': len(logged), 'rules': nr})
                props = logged[len(logged) - nr:]
                used += len(logged) // nr
            conflict_here = RR.arbitrate(props)[0] == 'conflict' and not any(isinstance(p, float) and p != p for p in props)
            if conflict_here:
                # the run must have ended with ValueError exactly here: instant kk is on the axis but not recorded
                ok = r['exc'] and r['exc'][0] == 'ValueError' and kk == r['n1'] - 1 and len(pwm) == kk
                st = judge_round(ctx, props, 'ValueError' if ok else None, None, case, 'simulation', kinds)
                if st == 'conflict':
                    ctx.count('conflict_runs')
                    outcome_pattern.append('X')
                break
            if kk >= len(pwm):
                ctx.violation('C14:run-ended-without-conflict', {'instant': kk, 'exception': r['exc'], 'proposals': props, 'rules': kinds}, case)
                return
            st = judge_round(ctx, props, None, pwm[kk], case, 'simulation', kinds)
            if st == 'bad':
                return
            outcome_pattern.append(str(sum(p is not None for p in props)))
        else:
            if r['exc']:
                ctx.violation('C14:run-raised-without-conflict', {'exception': r['exc'], 'rules': kinds}, case)
                return
        log_pos = len(b.rule_log) if r is runs[-1] else log_pos + sum(len(v) for k_, v in by_instant.items() if r['n0'] <= k_ < r['n1'])
    for kk, d in enumerate(pwm):
        if not (isinstance(d, (int, float)) and (d != d or -1 <= d <= 1)):
            ctx.violation('C14:recorded-duty-cycle-out-of-range', {'instant': kk, 'pwm': d}, case)
            return
    flush_ensure(ctx, case)
    pat = ''.join(outcome_pattern)
    if nr >= 2 and len(set(pat)) > 1:
        ctx.seen('nontrivial', '+'.join(sorted(kinds)) + '|' + ''.join(sorted(set(pat))))
    if len(ctx.samples) < 3 and nr >= 2:
        ctx.sample({'rules': kinds, 'proposal_count_per_instant': pat[:60], 'recorded_pwm_first_10': pwm[:10], 'run_exception': [r['exc'] for r in runs]})


def one(ctx, i):
    arm()
    rng = ctx.rng('case', i)
    case = {'kind': 'c14', 'index': i}
    if i % 3 == 2:
        standalone(ctx, i, rng, case)
    else:
        simulation(ctx, i, rng, case)
    STATE['b'] = None


def shard(ctx):
    for i in ctx.my_cases(n_cases(ctx.tier)):
        one(ctx, i)


def replay(ctx, case):
    one(ctx, case['index'])
