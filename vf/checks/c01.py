"""C01 -- kinematic coupling at every recorded instant (offline trace monitor)."""
from ..sim import gen as GEN, build as B, mon as MON
from . import simcommon as SC

PROPERTY = 'C01'
RULE = ('random chains of 2..12 elements (motor, flywheels, spur/helical pairs and idlers, worm matings in both orientations, '
        'fixed joints) with random parameters/units, loads of (position, speed, time), 0..4 ConstantPWM windows, schedules '
        'run/continue/reset/rerun; every recorded instant and adjacent pair is checked for position, speed and acceleration '
        'against the independently recomputed ratio. non-trivial = >=1 ratio != 1, >=5 instants, non-constant speed; '
        'distinct by topology signature x schedule shape')
ASSUMPTIONS = ['reference ratio recomputed from the declared teeth/starts (vf/ref/relations.py)',
               'samples compared in SI through the harness own unit table at 1e-9 relative',
               'traces are judged up to the first non-finite sample (stiff explicit-Euler cases)']
HEADLINE = ['scenarios', 'instants', 'pair_checks', 'instants_first', 'instants_continued', 'instants_held', 'after_early_stop', 'failed_runs']


def floors(tier):
    return {'instants': 5000, 'pair_checks': 30000, 'instants_continued': 200, 'instants_held': 50, 'instants_first': 100,
            'after_early_stop': 5, 'set:signatures': 20, 'set:nontrivial': 20}


def n_cases(tier):
    return 480 if tier == 'quick' else 16000


def one(ctx, spec, case):
    SC.simulate_and_monitor(ctx, spec, case, [MON.check_c01], nontrivial=nontrivial)


def nontrivial(spec, ana):
    w = ana.L['angular speed'][:ana.N]
    return ana.N >= 5 and any(r != 1 for r in ana.nums['r']) and len(set(w)) > 1


def shard(ctx):
    for i in ctx.my_cases(n_cases(ctx.tier)):
        rng = ctx.rng('case', i)
        spec = SC.general_scenario(rng, i, ctx.tier)
        one(ctx, spec, {'kind': 'scenario', 'index': i, 'spec': spec})


def replay(ctx, case):
    one(ctx, case['spec'], case)
