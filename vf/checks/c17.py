"""C17 -- every advertised time variable has exactly one sample per instant (invariant monitor over the optional-data matrix)."""
import itertools
import os
from ..ref import si as SI
from ..sim import gen as GEN, build as B, cells as CE
from . import simcommon as SC

PROPERTY = 'C17'
RULE = ('exhaustive optional-data matrix: spur and helical pairs with every subset of {module, face width, elastic modulus} on both mates x motor with/without '
        'currents; idler triples; worm pairs in both orientations x worm reference diameter yes/no x every subset of {module, face width} on the wheel; each '
        'under five schedules (run; run+continue in another unit; run with early stop; run, reset, re-apply, rerun; controlled run), plus random chains with '
        'random schedules. After every schedule: one sample per instant for every advertised variable, sample kind, last sample = current attribute, '
        'export_time_variables and snapshot executed (cells checked by the C18 oracle). A probe sensor checks the lengths after every recorded instant. '
        'non-trivial = element with >= 1 optional datum missing; distinct by (configuration, schedule)')
ASSUMPTIONS = ['runs aborted by the documented "mate misses module / elastic modulus" ValueError are not among the operations judged (counted)',
               'probe sensor = SensorBase subclass used as StopCondition sensor whose threshold is never reached']
HEADLINE = ['configurations', 'schedules_run', 'instants', 'series_checked', 'last_sample_checks', 'exports', 'snapshots', 'probe_calls', 'documented_run_errors', 'random_chains']
ATTR = {'angular position': 'angular_position', 'angular speed': 'angular_speed', 'angular acceleration': 'angular_acceleration', 'torque': 'torque',
        'driving torque': 'driving_torque', 'load torque': 'load_torque', 'tangential force': 'tangential_force', 'bending stress': 'bending_stress',
        'contact stress': 'contact_stress', 'electric current': 'electric_current', 'pwm': 'pwm'}
SCHEDS = ['run', 'continue', 'stop', 'reset', 'control', 'rejected', 'pwm0', 'twin']


def floors(tier):
    return {'configurations': 300, 'schedules_run': 1200, 'series_checked': 20000, 'last_sample_checks': 20000, 'exports': 1000, 'snapshots': 1000,
            'probe_calls': 5000, 'documented_run_errors': 50, 'random_chains': 100, 'set:matrix_cells': 300, 'set:nontrivial': 300}


def subsets(keys):
    for r in range(len(keys) + 1):
        for c in itertools.combinations(keys, r):
            yield c


def matrix():
    out = []
    for cls in ('spur', 'helical'):
        for s1 in subsets(('module', 'face_width', 'E')):
            for s2 in subsets(('module', 'face_width', 'E')):
                for cur in (False, True):
                    out.append(('pair', cls, s1, s2, cur))
    for cls in ('spur', 'helical'):
        for s in subsets(('module', 'face_width', 'E')):
            out.append(('idler', cls, s, s, True))
    full = ('module', 'face_width', 'E')
    for cur in ('zero_i0',):
        # both currents given, the no-load current exactly 0 A (documented as allowed)
        out += [('pair', 'spur', (), (), cur), ('pair', 'helical', full, full, cur), ('wormpair', 'worm', True, ('module', 'face_width'), cur), ('wormpair', 'wheel', False, (), cur)]
    for cur in ('i0', 'imax'):
        # a motor with only ONE of the two optional currents (the current is then not computable)
        out += [('pair', 'spur', (), (), cur), ('pair', 'helical', full, full, cur), ('wormpair', 'worm', True, ('module', 'face_width'), cur), ('wormpair', 'wheel', False, (), cur)]
    for orient in ('worm', 'wheel'):
        for diam in (False, True):
            for s2 in subsets(('module', 'face_width')):
                for cur in (False, True):
                    out.append(('wormpair', orient, diam, s2, cur))
    return out


def gear(cls, name, z, opt):
    g = {'type': cls, 'name': name, 'z': z, 'J': GEN.Q('InertiaMoment', 20, 'gcm^2')}
    if cls == 'helical':
        g['helix'] = GEN.Q('Angle', 15, 'deg')
    if 'module' in opt:
        g['module'] = GEN.Q('Length', 1, 'mm')
    if 'face_width' in opt:
        g['face_width'] = GEN.Q('Length', 5, 'mm')
    if 'E' in opt:
        g['E'] = GEN.Q('Stress', 200, 'GPa')
    return g


def config_spec(cfg):
    kind = cfg[0]
    cur = cfg[4]
    motor = {'type': 'motor', 'name': 'motor', 'J': GEN.Q('InertiaMoment', 5, 'gcm^2'), 'w0': GEN.Q('AngularSpeed', 2000, 'rpm'), 'Tmax': GEN.Q('Torque', 10, 'mNm'),
             'i0': GEN.Q('Current', 0 if cur == 'zero_i0' else 0.1, 'A') if cur in (True, 'i0', 'zero_i0') else None,
             'imax': GEN.Q('Current', 2, 'A') if cur in (True, 'imax', 'zero_i0') else None}
    chain = []
    if kind in ('pair', 'idler'):
        _, cls, s1, s2, _ = cfg
        a = gear(cls, 'a', 12, s1)
        a['rel'] = {'type': 'joint'}
        bq = gear(cls, 'b', 30, s2)
        bq['rel'] = {'type': 'gear', 'eff': 0.9}
        chain = [a, bq]
        if kind == 'idler':
            c = gear(cls, 'c', 45, s2)
            c['rel'] = {'type': 'gear', 'eff': 0.95}
            chain.append(c)
    else:
        _, orient, diam, s2, _ = cfg
        wg = {'type': 'wormgear', 'name': 'wg', 'n_starts': 2, 'J': GEN.Q('InertiaMoment', 5, 'gcm^2'), 'helix': GEN.Q('Angle', 20, 'deg'), 'pa': GEN.Q('Angle', 20, 'deg')}
        if diam:
            wg['d'] = GEN.Q('Length', 10, 'mm')
        ww = {'type': 'wormwheel', 'name': 'ww', 'z': 20, 'J': GEN.Q('InertiaMoment', 50, 'gcm^2'), 'helix': GEN.Q('Angle', 20, 'deg'), 'pa': GEN.Q('Angle', 20, 'deg')}
        if 'module' in s2:
            ww['module'] = GEN.Q('Length', 1, 'mm')
        if 'face_width' in s2:
            ww['face_width'] = GEN.Q('Length', 5, 'mm')
        end = {'type': 'spur', 'name': 'end', 'z': 12, 'J': GEN.Q('InertiaMoment', 5, 'gcm^2'), 'rel': {'type': 'joint'}}
        if orient == 'worm':
            wg['rel'] = {'type': 'joint'}
            ww['rel'] = {'type': 'worm', 'f': 0.05}
            chain = [wg, ww, end]
        else:
            ww['rel'] = {'type': 'joint'}
            wg['rel'] = {'type': 'worm', 'f': 0.05}
            chain = [ww, wg, end]
    spec = {'motor': motor, 'chain': chain,
            'load': {'A': 0.001, 'B': 0.0, 'C': 0.0, 'S': 0.0005, 'W': 3000.0, 'step_t': None, 'step_A': 0.0, 'unit': 'mNm'},
            'ic': {'pos': GEN.Q('AngularPosition', 0.0, 'rad'), 'speed': GEN.Q('AngularSpeed', 0.0, 'rad/s'), 'pwm': None}, 'rules': [], 'stop': None}
    return spec


def with_schedule(spec, sched, rng):
    dt = GEN.Q('TimeInterval', 0.01, 'ms')
    run = {'op': 'run', 'dt': dt, 'T': GEN.Q('TimeInterval', 0.08, 'ms')}
    spec = dict(spec)
    spec['probe'] = True
    if sched == 'run':
        spec['schedule'] = [run]
    elif sched == 'continue':
        spec['schedule'] = [run, {'op': 'export'}, {'op': 'run', 'dt': GEN.Q('TimeInterval', 2e-5, 'sec'), 'T': GEN.Q('TimeInterval', 1e-4, 'sec')}]
    elif sched == 'stop':
        spec['probe'] = False
        spec['stop'] = {'sensor': 'enc', 'elem': 0, 'op': 'ge', 'thr': GEN.Q('AngularPosition', 1e-4, 'rad')}
        spec['schedule'] = [dict(run, T=GEN.Q('TimeInterval', 0.3, 'ms'))]
    elif sched == 'reset':
        spec['schedule'] = [run, {'op': 'newpowertrain' if rng.random() < 0.5 else 'reset'}, {'op': 'reapply'}] + ([{'op': 'newsolver'}] if rng.random() < 0.5 else []) + [run, dict(run, T=GEN.Q('TimeInterval', 0.05, 'ms'))]
    elif sched == 'twin':
        spec['schedule'] = [run, {'op': 'twin'}, {'op': 'export'}, {'op': 'run', 'dt': GEN.Q('TimeInterval', 2e-5, 'sec'), 'T': GEN.Q('TimeInterval', 1e-4, 'sec')}]
    elif sched == 'pwm0':
        # motor switched off from the first instant on (duty cycle exactly 0), then switched on by hand for a continuation
        spec['ic'] = dict(spec['ic'], pwm=0)
        spec['schedule'] = [run, {'op': 'setpwm', 'value': 1}, {'op': 'run', 'dt': GEN.Q('TimeInterval', 2e-5, 'sec'), 'T': GEN.Q('TimeInterval', 1e-4, 'sec')}]
    elif sched == 'rejected':
        # calls the library rejects while checking their arguments, before, between and after real runs (the first one because
        # the load function was forgotten): they leave no trace
        spec['forget_load'] = True
        spec['schedule'] = [{'op': 'badrun', 'how': 'types'}, run, {'op': 'badrun', 'how': 'dt_ge_T', 'equal': True}, {'op': 'badrun', 'how': 'stop_type'},
                            {'op': 'run', 'dt': GEN.Q('TimeInterval', 2e-5, 'sec'), 'T': GEN.Q('TimeInterval', 1e-4, 'sec')}, {'op': 'badrun', 'how': 'control_type'}]
    else:
        spec['rules'] = [{'type': 'const', 'start': GEN.Q('Time', 0.025, 'ms'), 'dur': GEN.Q('TimeInterval', 0.03, 'ms'), 'value': 0.5}]
        spec['schedule'] = [run]
    return spec


def judge_history(ctx, b, runs, case, label, nontrivial_key=None, judge_cells=True):
    """the C17 invariants on the current history of a built powertrain"""
    pt = b.pt
    aborted = [r['exc'] for r in runs if r['exc']]
    if aborted:
        exc = aborted[0]
        if exc[0] == 'ValueError' and any(ph in exc[1] for ph in ('Impossible to compute contact stress', 'At least two rules are simultaneously applicable', "Missing 'pwm_min'")):
            ctx.count('documented_run_errors')
            return 'documented-error'
        ctx.violation('C17:run-raised', {'exception': exc, 'config': label}, case)
        return 'bad'
    ctx.count('rejected_run_calls', getattr(b, 'rejected_runs', 0))
    if getattr(b, 'rejected_run_effects', None):
        ctx.violation('C17:rejected-run-left-traces', {'effects': b.rejected_run_effects[:3], 'config': label}, case)
        return 'bad'
    if getattr(b, 'mid_schedule_failures', None):
        ctx.violation('C17:export-or-snapshot-raised-in-mid-schedule', {'failures': b.mid_schedule_failures[:3], 'config': label}, case)
        return 'bad'
    n = len(pt.time)
    ctx.count('instants', n)
    for el in pt.elements:
        for v, series in el.time_variables.items():
            ctx.count('series_checked')
            if len(series) != n:
                ctx.violation('C17:series-length', {'element': el.name, 'class': type(el).__name__, 'variable': v, 'samples': len(series), 'instants': n, 'config': label}, case)
                return 'bad'
            kind = B.VAR_KIND.get(v, '?')
            for s in series:
                ok = (isinstance(s, (int, float)) and not isinstance(s, bool)) if kind is None else isinstance(s, getattr(B.g().un, kind, ()))
                if not ok:
                    ctx.violation('C17:sample-kind', {'element': el.name, 'variable': v, 'sample_type': type(s).__name__, 'expected': kind or 'int/float', 'config': label}, case)
                    return 'bad'
            if n:
                cur = getattr(el, ATTR[v], None)
                last = series[-1]
                ctx.count('last_sample_checks')
                same = (cur is last) or (kind is None and cur == last) or (kind is not None and cur is not None and type(cur) is type(last) and cur.value == last.value and cur.unit == last.unit)
                if not same:
                    ctx.violation('C17:last-sample-differs-from-attribute', {'element': el.name, 'variable': v, 'last_sample': last, 'attribute': cur, 'config': label}, case)
                    return 'bad'
    for (cnt, bad, flag) in b.probe_log if b.is_probe else []:
        ctx.count('probe_calls')
        if bad:
            ctx.violation('C17:series-length-at-recorded-instant', {'mismatch': bad, 'config': label}, case)
            return 'bad'
    if n >= 2:
        tr = B.extract(b)
        rng = ctx.rng('cells', label)
        units = CE.random_units(rng)
        mid = GEN.Q('Time', SI.from_si('Time', 0.5 * (tr.time[0] + tr.time[1]) if rng.random() < 0.5 else tr.time[rng.randrange(n)], 'sec'), 'sec')
        if not (tr.time[0] <= GEN.qsi(mid) <= tr.time[-1]):
            mid = GEN.Q('Time', pt.time[1].value, pt.time[1].unit)
        ok = CE.check_snapshot(ctx, b, tr, mid, None, units, case, judge_values=judge_cells) and \
            CE.check_export(ctx, b, tr, os.path.join(ctx.scratch, 'c17exp'), rng.choice(SI.units('Time')), units, case, judge_values=judge_cells)
        if ok and hash(label) % 3 == 0:
            # the printing path of snapshot (default print_data=True) must not fail either
            import contextlib
            import io
            try:
                with contextlib.redirect_stdout(io.StringIO()):
                    pt.snapshot(target_time=B.mkq(mid))
                ctx.count('snapshots_printed')
            except Exception as ex:
                ctx.violation('C17:snapshot-raised', {'print_data': True, 'exception': type(ex).__name__ + ': ' + str(ex)[:200], 'config': label}, case)
                return 'bad'
        if not ok:
            for v in ctx.violations:
                if not v['monitor'].startswith(('C17:', 'harness')):
                    v['monitor'] = 'C17:' + v['monitor']
            return 'bad'
    return 'ok'


def run_config(ctx, ci, cfg):
    label0 = repr(cfg)
    case = {'kind': 'matrix', 'index': ci}
    ctx.count('configurations')
    ctx.seen('matrix_cells', label0)
    rng = ctx.rng('cfg', ci)
    for sched in SCHEDS:
        spec = with_schedule(config_spec(cfg), sched, rng)
        label = f'{label0}|{sched}'
        ctx.count('evaluations')
        try:
            b = B.build(spec)
        except Exception as ex:
            ctx.violation('harness:valid-scenario-rejected', {'exception': type(ex).__name__ + ': ' + str(ex)[:200], 'config': label}, case)
            return
        runs = B.run_schedule(b)
        ctx.count('schedules_run')
        for tr_cap, rr in b.captures:
            pass
        res = judge_history(ctx, b, runs, case, label)
        if res == 'bad':
            return
        opts = cfg[2:4] if cfg[0] != 'wormpair' else (cfg[2], cfg[3])
        if res == 'ok' and any(len(o) < (3 if cfg[0] != 'wormpair' else 2) for o in opts if isinstance(o, tuple)) or (cfg[0] == 'wormpair' and not cfg[2]):
            ctx.seen('nontrivial', label)
    if len(ctx.samples) < 2:
        ctx.sample({'configuration': label0, 'schedules': SCHEDS, 'advertised': {el.name: sorted(el.time_variables) for el in b.pt.elements},
                    'instants_last_schedule': len(b.pt.time)})


def run_random(ctx, i):
    rng = ctx.rng('rand', i)
    case = {'kind': 'random', 'index': i}
    spec = SC.general_scenario(rng, i, ctx.tier)
    spec['probe'] = spec.get('stop') is None
    if i % 3 == 0:
        # export / snapshot between the operations of the schedule
        sc_ = []
        for op_ in spec['schedule']:
            sc_.append(op_)
            if op_['op'] == 'run':
                sc_.append({'op': 'export'})
        spec['schedule'] = sc_
    ctx.count('random_chains')
    ctx.count('evaluations')
    try:
        b = B.build(spec)
    except Exception as ex:
        ctx.violation('harness:valid-scenario-rejected', {'exception': type(ex).__name__ + ': ' + str(ex)[:200]}, case)
        return
    runs = B.run_schedule(b)
    ctx.count('schedules_run')
    tr = B.extract(b)
    import math
    finite = all(math.isfinite(x) for e in tr.els for s in e['vars'].values() for x in s)
    judge_history(ctx, b, runs, case, 'random:' + SC.topo_signature(spec) + '|' + SC.sched_shape(spec), judge_cells=finite)
    ctx.seen('nontrivial', 'random:' + SC.topo_signature(spec) + '|' + SC.sched_shape(spec))


def shard(ctx):
    m = matrix()
    for ci in ctx.my_cases(len(m)):
        run_config(ctx, ci, m[ci])
    for i in ctx.my_cases(320 if ctx.tier == 'quick' else 12000):
        run_random(ctx, i)


def finalize(cov, merged):
    cov['exhaustive'] = len(merged['sets'].get('matrix_cells', ())) == len(matrix())
    cov['exhaustive_dimension'] = 'optional-data subsets of 2-3 gear pairs and worm pairs (both orientations) x 5 schedules'


def replay(ctx, case):
    if case['kind'] == 'matrix':
        run_config(ctx, case['index'], matrix()[case['index']])
    else:
        run_random(ctx, case['index'])
