"""C10 -- declaring a mating or joint sets a consistent, validated relation (pre/post-state contracts at the call boundary)."""
import math
from ..sim import build as B
from . import declcommon as DC

PROPERTY = 'C10'
RULE = ('random sequences (1..25 calls) of add_gear_mating / add_worm_gear_mating / add_fixed_joint on shared pools of 3..13 elements of all six kinds '
        '(and non-elements), teeth/starts random, helix angles incl. 0 and the per-pressure-angle maximum, all four pressure angles, modules / angles written '
        'in different units, efficiencies and friction coefficients inside, on and outside [0,1] and of wrong type, friction at the self-locking threshold and '
        'its ulp neighbours; failing calls followed by successful ones on the same objects. After an accepted call: mutual links, roles, ratio, efficiency '
        '(given value / documented friction formula), self-locking flag, ratio > 0, efficiency in [0,1]; acceptance itself against the documented Raises; after '
        'a rejected call every public relation attribute of both arguments is unchanged. non-trivial = call on elements that already carry a relation; '
        'distinct by (function, kind pair, outcome, had-relation)')
ASSUMPTIONS = ['worm and wheel with different helix angles are not treated as incompatible (the contract does not reject them)',
               'a null master helix angle (tan = 0) and a computed efficiency outside [0,1] must be rejected; efficiencies within 1e-12 of 0 or 1 accept either outcome',
               'compared quantities of two mates are either equal within 1e-9 or differ by far more (unit dependence near rounding is C07)']
HEADLINE = ['calls', 'accepted', 'rejected', 'frame_checks', 'rejected_after_validation_of_values', 'value_checks', 'selflock_decisions', 'selflock_near_threshold',
            'calls_on_related_elements', 'cross_unit_equal_pairs_accepted', 'cross_unit_different_pairs_rejected']


def floors(tier):
    return {'calls': 20000, 'accepted': 3000, 'rejected': 8000, 'frame_checks': 8000, 'rejected_after_validation_of_values': 100, 'value_checks': 3000,
            'selflock_decisions': 300, 'calls_on_related_elements': 5000, 'cross_unit_equal_pairs_accepted': 30, 'cross_unit_different_pairs_rejected': 30,
            'set:nontrivial': 60}


def n_cases(tier):
    return 2400 if tier == 'quick' else 80000


def judge_call(ctx, c, case):
    mo = B.g().mo
    ctx.count('calls')
    ctx.count('evaluations')
    had = any(s is not None and any(v is not None and a in ('drives', 'driven_by') for a, v in s if a != 'time_variables') for s in c.before)
    if had:
        ctx.count('calls_on_related_elements')
    wit = {'function': c.fn, 'master': DC.describe(c.a), 'slave': DC.describe(c.b), 'parameter': c.param, 'outcome': c.outcome or 'accepted',
           'expected': c.expect[0] if c.expect[0] != 'accept' else 'accept', 'expected_detail': c.expect[1] if c.expect[0] == 'reject' else None}
    kp = f'{c.fn}|{type(c.a).__name__}>{type(c.b).__name__}|{c.outcome or "ok"}|{"rel" if had else "fresh"}'
    # --- acceptance
    if c.expect[0] == 'reject':
        if c.outcome is None:
            ctx.violation('C10:incompatible-pair-accepted', wit, case)
            return False
        if c.outcome not in c.expect[1].split('|') + (['ValueError', 'TypeError'] if True else []):
            ctx.violation('C10:unexpected-exception-class', wit, case)
            return False
    elif c.expect[0] == 'accept' and c.outcome is not None:
        ctx.violation('C10:compatible-pair-rejected', dict(wit, message=getattr(c, 'message', '')), case)
        return False
    # --- frame condition after a rejected call
    if c.outcome is not None:
        ctx.count('rejected')
        ctx.count('frame_checks')
        if c.fn == 'worm' and c.expect[0] in ('reject', 'either') and isinstance(c.a, (mo.WormGear, mo.WormWheel)) and isinstance(c.b, (mo.WormGear, mo.WormWheel)) \
                and isinstance(c.a, mo.WormGear) != isinstance(c.b, mo.WormGear) and isinstance(c.param, (int, float)) and 0 <= c.param <= 1:
            ctx.count('rejected_after_validation_of_values')
        if c.after != c.before:
            diff = []
            for who, (b0, b1) in zip(('master', 'slave'), zip(c.before, c.after)):
                if b0 != b1:
                    diff.append({who: [(x, y) for x, y in zip(b0, b1) if x != y]})
            ctx.violation('C10:rejected-call-modified-an-element', dict(wit, changed=diff), case)
            return False
        ctx.seen('nontrivial', kp) if had else None
        return True
    # --- values after an accepted call
    ctx.count('accepted')
    if c.expect[0] == 'either':
        return True
    e = c.expect[1]
    a, b = c.a, c.b
    ok = a.drives is b and b.driven_by is a
    why = 'links'
    if ok and c.fn in ('gear', 'worm'):
        ok = a.mating_role is mo.MatingMaster and b.mating_role is mo.MatingSlave
        why = 'roles'
    if ok:
        r = b.master_gear_ratio
        ok = isinstance(r, (int, float)) and not isinstance(r, bool) and r > 0 and abs(r - e['ratio']) <= 1e-12 * e['ratio'] and (c.fn != 'joint' or r == 1)
        why = 'ratio'
    if ok and c.fn in ('gear', 'worm'):
        eta = b.master_gear_efficiency
        ok = isinstance(eta, (int, float)) and 0 <= eta <= 1 and abs(eta - e['eff']) <= 1e-9
        why = 'efficiency'
    if ok and c.fn == 'worm':
        ctx.count('selflock_decisions')
        if e['self_locking'] is None:
            ctx.count('selflock_near_threshold')
            ok = isinstance(e['worm'].self_locking, bool)
        else:
            ok = e['worm'].self_locking is e['self_locking']
        why = 'self_locking'
    ctx.count('value_checks')
    if not ok:
        ctx.violation('C10:relation-values', dict(wit, failed=why, state_master=c.after[0], state_slave=c.after[1], reference=e if c.fn != 'worm' else {k: v for k, v in e.items() if k != 'worm'}), case)
        return False
    if c.fn == 'gear':
        for attr in ('module', 'helix_angle'):
            qa, qb = getattr(a, attr, None), getattr(b, attr, None)
            if qa is not None and qb is not None and qa.unit != qb.unit:
                ctx.count('cross_unit_equal_pairs_accepted')
    if had:
        ctx.seen('nontrivial', kp)
    return True


def sequence(ctx, i):
    rng = ctx.rng('seq', i)
    case = {'kind': 'sequence', 'index': i}
    pool = DC.make_pool(rng)
    extras = [None, 3, 'gear', B.g().un.Length(1, 'mm')] if rng.random() < 0.3 else []
    last = None
    for _ in range(rng.randint(1, 25)):
        c = DC.do_call(rng, pool, extras)
        last = c
        if c.fn == 'gear' and c.outcome == 'ValueError' and c.expect[0] == 'reject':
            for attr in ('module', 'helix_angle'):
                qa, qb = getattr(c.a, attr, None), getattr(c.b, attr, None)
                if hasattr(qa, 'unit') and hasattr(qb, 'unit') and qa.unit != qb.unit and not DC.same_magnitude(qa, qb):
                    ctx.count('cross_unit_different_pairs_rejected')
        if not judge_call(ctx, c, case):
            return
    if len(ctx.samples) < 3 and last is not None:
        ctx.sample({'function': last.fn, 'master': DC.describe(last.a), 'slave': DC.describe(last.b), 'parameter': last.param,
                    'outcome': last.outcome or 'accepted', 'state_before': last.before, 'state_after': last.after})


def shard(ctx):
    for i in ctx.my_cases(n_cases(ctx.tier)):
        sequence(ctx, i)


def replay(ctx, case):
    sequence(ctx, case['index'])
