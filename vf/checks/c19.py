"""C19 -- sign-constrained quantities and parameters can never be invalid.

Two oracles: icontract class invariants applied in place to the five sign-constrained classes (fire inside the
operation that broke the object, also for objects the interpreter never sees), and a program interpreter that
inspects every live object after every step. Conditions record and return True: they never raise into gearpy.
"""
import math
import os
from fractions import Fraction
from ..ref import si as SI

PROPERTY = 'C19'
RULE = ('random straight-line programs (5..60 steps) over construct, + - * / with quantities and numbers, abs, neg, to, to(inplace=True) over all 13 kinds '
        'and units, operands finite of either sign and zero, magnitudes 1e-12..1e12; an extremes pass (conversions / scalings of subnormal, min-normal and '
        'near-max values); every live object inspected after every step AND icontract invariants on Length/Surface/InertiaMoment/TimeInterval/Angle; '
        'component constructor table (one non-physical parameter at a time, plus valid boundary values that must be accepted). '
        'non-trivial = program with >=1 in-place conversion and >=1 rejected operation; distinct by program hash')
ASSUMPTIONS = ['icontract.invariant mutates the class object in place, so gearpy internal references are covered',
               'an infinite value of the right sign is not counted as a sign violation; NaN is',
               'programs never pass non-finite operands or unknown unit names (outside the quantifier)']
HEADLINE = ['programs', 'steps', 'inspections', 'invariant_evaluations', 'exc_ValueError', 'exc_TypeError', 'exc_ZeroDivisionError', 'inplace_conversions',
            'extreme_steps', 'constructor_cases', 'constructor_rejections', 'constructor_boundary_accepted']
CONSTRAINED = ['Length', 'Surface', 'InertiaMoment', 'TimeInterval', 'Angle']
LOG = {'evals': 0, 'bad': []}


class InvariantBroken(Exception):
    pass


class OperationReturnedNothing(Exception):
    """an operation on quantities neither raised nor produced a value: it must yield a valid quantity or raise ValueError"""


def _valid(kind, v):
    if isinstance(v, bool) or not isinstance(v, (int, float)):
        return False
    return (v >= 0) if kind == 'Angle' else (v > 0)


def _mkinv(kind):
    def sign_constraint_holds(self):
        LOG['evals'] += 1
        try:
            v = self.value
        except Exception:
            return True
        if not _valid(kind, v):
            LOG['bad'].append((kind, repr(v), getattr(self, 'unit', None)))
        return True
    sign_constraint_holds.__name__ = f'{kind.lower()}_sign_constraint_holds'
    return sign_constraint_holds


_armed = False


def arm():
    global _armed
    if _armed:
        return
    import icontract
    import gearpy.units as U
    for k in CONSTRAINED:
        icontract.invariant(_mkinv(k), error=InvariantBroken)(getattr(U, k))
    _armed = True


def floors(tier):
    return {'programs': 1500, 'steps': 30000, 'inspections': 100000, 'invariant_evaluations': 100000, 'exc_ValueError': 1000, 'exc_TypeError': 3000,
            'exc_ZeroDivisionError': 100, 'inplace_conversions': 2000, 'extreme_steps': 2000, 'constructor_cases': 300, 'constructor_rejections': 200,
            'constructor_boundary_accepted': 50, 'augmented_assignments': 500}


def n_cases(tier):
    return 2400 if tier == 'quick' else 50000


def lib(kind):
    import gearpy.units as U
    return getattr(U, kind)


def rand_value(rng, kind=None):
    r = rng.random()
    if r < 0.08:
        return 0 if rng.random() < 0.5 else 0.0
    if r < 0.14:
        return rng.choice([-1, 1]) * 10 ** rng.uniform(-17, -12)       # rounding-noise sized values of either sign
    v = 10 ** rng.uniform(-12, 12) if rng.random() < 0.3 else float(f'{10 ** rng.uniform(-3, 4):.4g}')
    if rng.random() < 0.25:
        v = -v
    if rng.random() < 0.1:
        v = int(v) if abs(v) >= 1 else v
    return v


def inspect(ctx, pool, step, case, prog):
    for name, q in pool.items():
        k = type(q).__name__
        if k in CONSTRAINED:
            ctx.count('inspections')
            v = q.value
            if not _valid(k, v):
                return (name, k, repr(v), q.unit)
    return None


def run_program(ctx, idx, tier, extreme=False):
    rng = ctx.rng('prog', idx, extreme)
    pool = {}
    prog = []
    n = rng.randint(5, 60)
    case = {'kind': 'program', 'index': idx, 'extreme': extreme}
    had_inplace = had_reject = False
    kinds = SI.KINDS
    ctx.count('programs')
    ctx.count('evaluations')
    for step in range(n):
        names = list(pool)
        r = rng.random()
        target = f'v{step}'
        desc = None
        d14 = False
        try:
            if not names or r < 0.25:
                k = rng.choice(kinds if rng.random() < 0.5 else CONSTRAINED)
                u = rng.choice(SI.units(k))
                v = extreme_value(rng) if extreme else rand_value(rng, k)
                desc = ['new', k, v, u]
                pool[target] = lib(k)(v, u)
            elif r < 0.55:
                a = rng.choice(names)
                op = rng.choice('+-*/')
                if rng.random() < 0.5:
                    b = rng.choice(names)
                    desc = ['bin', a, op, b]
                    bo = pool[b]
                else:
                    bo = (rng.choice([0.5, 2, 1e-10, 1e10, 1e-300, 1e300, -1, 0]) if extreme else rand_value(rng))
                    desc = ['binnum', a, op, bo]
                    if rng.random() < 0.3 and op == '*':
                        desc[0] = 'rbinnum'
                if desc[0] == 'rbinnum':
                    res = bo * pool[a]
                elif rng.random() < 0.25:
                    # augmented assignment (a += b, a -= b, a *= x, a /= x): whatever object the statement leaves under the name
                    # a -- a new one or the old one updated in place -- is inspected like every other object
                    import operator as _op
                    desc[0] = 'i' + desc[0]
                    ctx.count('augmented_assignments')
                    res = {'+': _op.iadd, '-': _op.isub, '*': _op.imul, '/': _op.itruediv}[op](pool[a], bo)
                    if res is None:
                        raise OperationReturnedNothing()
                    if hasattr(res, 'unit'):
                        target = a
                else:
                    res = {'+': lambda x, y: x + y, '-': lambda x, y: x - y, '*': lambda x, y: x * y, '/': lambda x, y: x / y}[op](pool[a], bo)
                if res is None:
                    raise OperationReturnedNothing()
                if hasattr(res, 'unit'):
                    pool[target] = res
            elif r < 0.60:
                a = rng.choice(names)
                k = type(pool[a]).__name__
                u = rng.choice(SI.units(k))
                desc = ['selfdiff', a, u]
                res = pool[a] - pool[a].to(u)
                if res is None:
                    raise OperationReturnedNothing()
                pool[target] = res
            elif r < 0.68:
                a = rng.choice(names)
                f = rng.choice(['abs', 'neg'])
                desc = [f, a]
                res = abs(pool[a]) if f == 'abs' else -pool[a]
                if res is None:
                    raise OperationReturnedNothing()
                pool[target] = res
            else:
                a = rng.choice(names)
                k = type(pool[a]).__name__
                u = rng.choice(SI.units(k))
                inplace = rng.random() < 0.5
                desc = ['to', a, u, inplace]
                if inplace:
                    had_inplace = True
                    ctx.count('inplace_conversions')
                    before = (pool[a].value, pool[a].unit)
                    exact = Fraction(before[0]) * SI.TABLE[k][before[1]][0] / SI.TABLE[k][u][0]
                    # D14 mechanism: the value (or the library's intermediate value*factor) underflows
                    tiny = Fraction(1, 10 ** 300)
                    d14 = before[0] != 0 and (abs(exact) < tiny or abs(Fraction(before[0]) * SI.TABLE[k][before[1]][0]) < tiny)
                    pool[a].to(u, inplace=True)
                else:
                    pool[target] = pool[a].to(u)
        except ValueError:
            ctx.count('exc_ValueError')
            had_reject = True
        except TypeError:
            ctx.count('exc_TypeError')
            had_reject = True
        except ZeroDivisionError:
            ctx.count('exc_ZeroDivisionError')
            had_reject = True
        except OperationReturnedNothing:
            prog.append(desc)
            ctx.violation('C19:operation-returned-nothing', {'step': step, 'op': desc, 'operands': {k_: [type(pool[k_]).__name__, pool[k_].value, pool[k_].unit] for k_ in desc[1:] if isinstance(k_, str) and k_ in pool},
                                                             'program_tail': prog[-6:]}, case)
            return
        except OverflowError:
            ctx.count('exc_OverflowError')
        except Exception as ex:
            prog.append(desc)
            ctx.violation('C19:unexpected-exception-class', {'step': step, 'op': desc, 'exception': type(ex).__name__ + ': ' + str(ex)[:120], 'program': prog[-8:]}, case)
            return
        prog.append(desc)
        ctx.count('steps')
        if extreme:
            ctx.count('extreme_steps')
        # operands must stay finite (the quantifier): an object that overflowed to +-inf is valid sign-wise
        # but is retired from the pool so that inf-inf / 0*inf artefacts are not manufactured by the harness
        for nm in [nm for nm, q in pool.items() if isinstance(q.value, float) and not math.isfinite(q.value)]:
            if pool[nm].value == pool[nm].value:
                ctx.count('overflowed_objects_retired')
                del pool[nm]
        bad = inspect(ctx, pool, step, case, prog)
        inv_bad = LOG['bad'][:]
        del LOG['bad'][:]
        if bad or inv_bad:
            wit = {'step': step, 'op': desc, 'invalid_object': bad, 'invariant_log': inv_bad[:3], 'program_tail': prog[-6:]}
            if desc and desc[0] == 'to' and desc[3] and d14 and bad and bad[2] in ('0.0', '0', '-0.0'):
                ctx.known_finding('D14', wit, case)
                # the object stays invalid in the pool: drop it so that it is reported once
                pool.pop(desc[1], None)
                del LOG['bad'][:]
                continue
            ctx.violation('C19:invalid-quantity-exists', wit, case)
            return
    if had_inplace and had_reject:
        ctx.seen('nontrivial', hash_prog(prog))
    if len(ctx.samples) < 2 and len(prog) > 8:
        ctx.sample({'program_head': prog[:8], 'steps': len(prog)})


def hash_prog(prog):
    import hashlib
    return hashlib.sha1(repr(prog).encode()).hexdigest()[:16]


def extreme_value(rng):
    v = rng.choice([5e-324, 1e-320, 2.2250738585072014e-308, 1e-300, 1e-160, 1e160, 1e300, 1.7e308, 1.0, 3.0])
    return v if rng.random() < 0.8 else -v


# ------------------------------------------------------------------ constructor table

def constructor_cases(rng):
    """(label, factory kwargs builder, expect) ; expect in {'reject','accept'}"""
    import gearpy.units as U
    import gearpy.mechanical_objects as mo
    J = U.InertiaMoment(5, 'gcm^2')

    def spd(v):
        u = rng.choice(SI.units('AngularSpeed'))
        return U.AngularSpeed(v / SI.FACT['AngularSpeed'][u] if v else 0, u)

    def tq(v):
        u = rng.choice(SI.units('Torque'))
        return U.Torque(v / SI.FACT['Torque'][u] if v else 0, u)

    def cur(v):
        u = rng.choice(SI.units('Current'))
        return U.Current(v / SI.FACT['Current'][u] if v else 0, u)

    def ang(deg):
        u = rng.choice(SI.units('Angle'))
        return U.Angle(SI.convert('Angle', deg, 'deg', u), u) if u != 'deg' else U.Angle(deg, 'deg')

    def st(v):
        u = rng.choice(SI.units('Stress'))
        return U.Stress(v / SI.FACT['Stress'][u] if v else 0, u)
    neg = lambda: -10 ** rng.uniform(-6, 3)
    C = []
    motor = lambda **kw: mo.DCMotor(**dict(dict(name='m', inertia_moment=J, no_load_speed=spd(200), maximum_torque=tq(0.01)), **kw))
    motorc = lambda **kw: motor(**dict(dict(no_load_electric_current=cur(0.1), maximum_electric_current=cur(2)), **kw))
    C += [('no_load_speed=0', lambda: motor(no_load_speed=spd(0)), 'reject'), ('no_load_speed<0', lambda: motor(no_load_speed=spd(neg())), 'reject'),
          ('maximum_torque=0', lambda: motor(maximum_torque=tq(0)), 'reject'), ('maximum_torque<0', lambda: motor(maximum_torque=tq(neg())), 'reject'),
          ('maximum_current=0', lambda: motorc(maximum_electric_current=cur(0)), 'reject'), ('maximum_current<0', lambda: motorc(maximum_electric_current=cur(neg())), 'reject'),
          ('no_load_current<0', lambda: motorc(no_load_electric_current=cur(-0.05)), 'reject'),
          ('no_load_current=maximum', lambda: motorc(no_load_electric_current=cur(2), maximum_electric_current=cur(2)), 'reject'),
          ('no_load_current>maximum', lambda: motorc(no_load_electric_current=cur(2.5)), 'reject'),
          ('no_load_current=0 (documented as allowed)', lambda: motorc(no_load_electric_current=cur(0)), 'accept'),
          ('valid motor', lambda: motorc(), 'accept'), ('valid motor without currents', lambda: motor(), 'accept'),
          # several parameters invalid at once (a check on a product or a sum of parameters lets such a motor through)
          ('no_load_speed<0 and maximum_torque<0', lambda: motor(no_load_speed=spd(neg()), maximum_torque=tq(neg())), 'reject'),
          ('no_load_speed<0 and maximum_torque<0, with currents', lambda: motorc(no_load_speed=spd(-200), maximum_torque=tq(-0.01)), 'reject'),
          ('maximum_current<0 and no_load_current<0', lambda: motorc(no_load_electric_current=cur(-2), maximum_electric_current=cur(-0.1)), 'reject'),
          ('maximum_torque<0 and maximum_current<0', lambda: motorc(maximum_torque=tq(neg()), maximum_electric_current=cur(neg())), 'reject'),
          ('no_load_speed=0 and maximum_torque=0', lambda: motor(no_load_speed=spd(0), maximum_torque=tq(0)), 'reject')]
    spur = lambda **kw: mo.SpurGear(**dict(dict(name='g', n_teeth=20, inertia_moment=J), **kw))
    hel = lambda **kw: mo.HelicalGear(**dict(dict(name='g', n_teeth=20, inertia_moment=J, helix_angle=ang(20)), **kw))
    C += [('spur teeth=9', lambda: spur(n_teeth=9), 'reject'), ('spur teeth=0', lambda: spur(n_teeth=0), 'reject'), ('spur teeth=-12', lambda: spur(n_teeth=-12), 'reject'),
          ('spur teeth=10 (tabulated minimum)', lambda: spur(n_teeth=10), 'accept'),
          ('spur elastic_modulus=0', lambda: spur(elastic_modulus=st(0), module=U.Length(1, 'mm'), face_width=U.Length(5, 'mm')), 'reject'),
          ('spur elastic_modulus<0', lambda: spur(elastic_modulus=st(-1e9)), 'reject'),
          ('helical teeth=9', lambda: hel(n_teeth=9), 'reject'), ('helical helix=90deg', lambda: hel(helix_angle=U.Angle(90, 'deg')), 'reject'),
          ('helical helix=pi/2 rad', lambda: hel(helix_angle=U.Angle(math.pi / 2 * (1 + 1e-9), 'rad')), 'reject'),
          ('helical helix=120deg', lambda: hel(helix_angle=ang(120)), 'reject'),
          ('helical helix=280deg', lambda: hel(helix_angle=U.Angle(280, 'deg')), 'reject'), ('helical helix=1 rot', lambda: hel(helix_angle=U.Angle(1, 'rot')), 'reject'),
          ('helical helix=725deg', lambda: hel(helix_angle=U.Angle(725, 'deg')), 'reject'), ('helical helix=6 rad', lambda: hel(helix_angle=U.Angle(6, 'rad')), 'reject'), ('helical helix=89.9deg', lambda: hel(helix_angle=U.Angle(89.9, 'deg')), 'accept'),
          ('helical helix=0', lambda: hel(helix_angle=U.Angle(0, 'deg')), 'accept'),
          ('helical elastic_modulus<0', lambda: hel(elastic_modulus=st(-5)), 'reject')]
    for pa, mx in ((14.5, 16), (20, 25), (25, 35), (30, 45)):
        wg = lambda pa=pa, **kw: mo.WormGear(**dict(dict(name='w', n_starts=2, inertia_moment=J, pressure_angle=U.Angle(pa, 'deg'), helix_angle=U.Angle(10, 'deg')), **kw))
        ww = lambda pa=pa, **kw: mo.WormWheel(**dict(dict(name='w', n_teeth=30, inertia_moment=J, pressure_angle=U.Angle(pa, 'deg'), helix_angle=U.Angle(10, 'deg')), **kw))
        over = mx + rng.choice([0.01, 1, 20])
        C.append((f'wheel pa={pa} with module and face width, helix={over} (above the worm limit)', lambda ww=ww, over=over: ww(helix_angle=U.Angle(over, 'deg'), module=U.Length(1, 'mm'), face_width=U.Length(5, 'mm')), 'reject'))
        C.append((f'worm pa={pa} with reference diameter, helix={over} (above its limit)', lambda wg=wg, over=over: wg(helix_angle=U.Angle(over, 'deg'), reference_diameter=U.Length(12, 'mm')), 'reject'))
        # the same pressure angle written in another unit (harness conversion): the worm limit must not depend on it
        pu = rng.choice(['rad', 'rot', 'arcmin', 'arcsec'])
        pa_u = lambda pa=pa, pu=pu: U.Angle(SI.convert('Angle', pa, 'deg', pu), pu)
        next_mx = {14.5: 25, 20: 35, 25: 45, 30: 60}[pa]
        between = mx + 0.5 * (min(next_mx, 89) - mx)
        C += [(f'worm pa={pa} written in {pu}, helix={between} (above its limit, below the next row)',
               lambda wg=wg, pa_u=pa_u, between=between: wg(pressure_angle=pa_u(), helix_angle=U.Angle(between, 'deg')), 'reject'),
              (f'wheel pa={pa} written in {pu}, helix={between}',
               lambda ww=ww, pa_u=pa_u, between=between: ww(pressure_angle=pa_u(), helix_angle=U.Angle(between, 'deg')), 'reject'),
              (f'worm pa={pa} written in {pu}, helix=10',
               lambda wg=wg, pa_u=pa_u: wg(pressure_angle=pa_u()), 'accept')]
        C += [(f'worm pa={pa} helix={over}', lambda wg=wg, over=over: wg(helix_angle=U.Angle(over, 'deg')), 'reject'),
              (f'worm pa={pa} helix=max', lambda wg=wg, mx=mx: wg(helix_angle=U.Angle(mx, 'deg')), 'accept'),
              (f'wheel pa={pa} helix={over}', lambda ww=ww, over=over: ww(helix_angle=U.Angle(over, 'deg')), 'reject'),
              (f'wheel pa={pa} helix=max', lambda ww=ww, mx=mx: ww(helix_angle=U.Angle(mx, 'deg')), 'accept'),
              (f'wheel pa={pa} helix over max in arcmin', lambda ww=ww, over=over: ww(helix_angle=U.Angle(over * 60, 'arcmin')), 'reject'),
              (f'worm pa={pa} starts=0', lambda wg=wg: wg(n_starts=0), 'reject'), (f'worm pa={pa} starts=-1', lambda wg=wg: wg(n_starts=-1), 'reject'),
              (f'worm pa={pa} starts=1', lambda wg=wg: wg(n_starts=1), 'accept'),
              (f'wheel pa={pa} teeth=9', lambda ww=ww: ww(n_teeth=9), 'reject')]
    C += [('worm pressure angle not tabulated', lambda: mo.WormGear(name='w', n_starts=1, inertia_moment=J, pressure_angle=U.Angle(22, 'deg'), helix_angle=U.Angle(5, 'deg')), 'reject')]

    class RejectedAssignmentLeftItsValue(Exception):
        pass

    def pwm_case(v):
        m = motor()
        before = m.pwm
        try:
            m.pwm = v
        except ValueError:
            # the refusal is only half of it: the motor must not keep the refused duty cycle
            if not (isinstance(m.pwm, (int, float)) and -1 <= m.pwm <= 1 and m.pwm == before):
                raise RejectedAssignmentLeftItsValue(f'pwm is {m.pwm!r} after the refused assignment of {v!r}')
            raise
        return m
    for v in (1.0000001, -1.0000001, 2, -5, 1e6):
        C.append((f'pwm={v}', lambda v=v: pwm_case(v), 'reject'))
    for v in (1, -1, 0, 0.5, -0.999):
        C.append((f'pwm={v}', lambda v=v: pwm_case(v), 'accept'))
    return C


def constructor_table(ctx, rep):
    rng = ctx.rng('ctor', rep)
    for label, make, expect in constructor_cases(rng):
        ctx.count('constructor_cases')
        ctx.count('evaluations')
        ctx.seen('constructor_labels', label)
        try:
            make()
            out = 'accept'
        except ValueError:
            out = 'reject'
        except Exception as ex:
            out = type(ex).__name__
        if out == 'reject':
            ctx.count('constructor_rejections')
        if expect == 'accept' and out == 'accept':
            ctx.count('constructor_boundary_accepted')
        if out != expect:
            ctx.violation('C19:constructor', {'case': label, 'expected': expect, 'observed': out}, {'kind': 'ctor', 'rep': rep})
    # rules with non-physical targets
    ctx.seen('nontrivial', f'ctor{rep}')


def rule_constructor_cases(ctx, rep):
    from ..sim import gen as GEN, build as B
    rng = ctx.rng('rulector', rep)
    spec = GEN.gen_scenario(rng, {'p_currents': 1.0})
    b = B.build(spec)
    se, ru = B.g().se, B.g().ru
    import gearpy.units as U
    timer = se.Timer(U.Time(0, 'sec'), U.TimeInterval(1, 'sec'))
    for v, exp in ((1.5, 'reject'), (-1.01, 'reject'), (1, 'accept'), (-1, 'accept'), (0, 'accept')):
        ctx.count('constructor_cases')
        try:
            ru.ConstantPWM(timer=timer, powertrain=b.pt, target_pwm_value=v)
            out = 'accept'
        except ValueError:
            out = 'reject'
        except Exception as ex:
            out = type(ex).__name__
        ctx.count('constructor_rejections' if out == 'reject' else 'constructor_boundary_accepted')
        if out != exp:
            ctx.violation('C19:constructor', {'case': f'ConstantPWM target {v}', 'expected': exp, 'observed': out}, {'kind': 'rulector', 'rep': rep})
    for v, exp in ((0, 'reject'), (-0.5, 'reject'), (0.5, 'accept')):
        ctx.count('constructor_cases')
        try:
            u = rng.choice(SI.units('Current'))
            ru.StartLimitCurrent(encoder=se.AbsoluteRotaryEncoder(b.last), tachometer=se.Tachometer(b.motor), motor=b.motor,
                                 target_angular_position=U.AngularPosition(1, 'rad'), limit_electric_current=U.Current(v / SI.FACT['Current'][u] if v else 0, u))
            out = 'accept'
        except ValueError:
            out = 'reject'
        except Exception as ex:
            out = type(ex).__name__
        ctx.count('constructor_rejections' if out == 'reject' else 'constructor_boundary_accepted')
        if out != exp:
            ctx.violation('C19:constructor', {'case': f'StartLimitCurrent limit {v}', 'expected': exp, 'observed': out}, {'kind': 'rulector', 'rep': rep})


def repo_tests_under_contracts(ctx):
    """thorough tier, one shard: the repository's own unit tests executed with the invariants armed (vf/pytest_contracts.py).
    The tests are a workload here, not an oracle: what is judged is what the invariants saw while they ran."""
    import glob
    import json
    import shutil
    import subprocess
    import sys
    from .. import core
    repo = core.repo_path()
    root = os.path.dirname(os.path.dirname(os.path.dirname(os.path.abspath(__file__))))
    logd = os.path.join(ctx.scratch, 'contract-log')
    shutil.rmtree(logd, ignore_errors=True)
    env = dict(os.environ, VERIF_CONTRACT_LOG=logd, PYTHONDONTWRITEBYTECODE='1',
               PYTHONPATH=os.pathsep.join([root, os.path.join(root, '.deps'), repo]))
    dirs = [d for d in ('tests/test_units', 'tests/test_sensors', 'tests/test_motor_control', 'tests/test_solver') if os.path.isdir(os.path.join(repo, d))]
    try:
        r = subprocess.run([sys.executable, '-B', '-m', 'pytest', '-q', '-p', 'no:cacheprovider', '-p', 'vf.pytest_contracts', '-n', '6'] + dirs,
                           cwd=repo, env=env, capture_output=True, text=True, timeout=2400)
    except subprocess.TimeoutExpired:
        ctx.observe('repository tests under contracts: timed out (not judged)')
        return
    tail = (r.stdout.strip().splitlines() or [''])[-1]
    ctx.observe('repository tests under contracts: ' + ('pytest exit 0' if r.returncode == 0 else f'pytest exit {r.returncode} (not judged)'), {'last_line': tail[:200]})
    ev, bad = 0, []
    for f in glob.glob(os.path.join(logd, '*.json')):
        d = json.load(open(f))
        ev += d['evals']
        bad += d['bad']
    ctx.count('invariant_evaluations_during_repository_tests', ev)
    ctx.count('repository_test_processes_logged', len(glob.glob(os.path.join(logd, '*.json'))))
    if bad:
        ctx.violation('C19:invalid-quantity-alive-during-repository-tests', {'log': bad[:8], 'count': len(bad)}, {'kind': 'repo-tests'})
    shutil.rmtree(logd, ignore_errors=True)


def shard(ctx):
    arm()
    if ctx.tier == 'thorough' and ctx.shard == 0:
        repo_tests_under_contracts(ctx)
    n = n_cases(ctx.tier)
    for i in ctx.my_cases(n):
        run_program(ctx, i, ctx.tier, extreme=(ctx.rng('ext', i).random() < 0.2))
    for rep in ctx.my_cases(32 if ctx.tier == 'quick' else 320):
        constructor_table(ctx, rep)
        rule_constructor_cases(ctx, rep)
    ctx.count('invariant_evaluations', LOG['evals'])
    if LOG['bad']:
        ctx.violation('C19:invariant-fired-outside-programs', {'log': LOG['bad'][:5]}, None)


def replay(ctx, case):
    arm()
    if case is None:
        return
    if case['kind'] == 'program':
        run_program(ctx, case['index'], ctx.tier, case['extreme'])
    elif case['kind'] == 'ctor':
        constructor_table(ctx, case['rep'])
    else:
        rule_constructor_cases(ctx, case['rep'])
