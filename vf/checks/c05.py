"""C05 -- unit conversion agrees with SI definitions; comparisons are unit-blind (reference-model monitor)."""
import math
import operator
from ..ref import si as SI

PROPERTY = 'C05'
RULE = ('exhaustive over the 13 kinds x all ordered unit pairs (607) x {copy, in-place, there-and-back}; magnitudes log-uniform over '
        '1e-12..1e12 (thorough 1e-30..1e30) of both signs where the kind allows, decimal round values and zero; comparisons: 6 operators x both '
        'operand orders on pairs (x, x(1+d)) with d in {0, +-1ulp, +-1e-15, +-1e-12, +-1e-9, +-1e-6, +-1e-3, x2} incl. cross-family pairs '
        '(Angle/AngularPosition, TimeInterval/Time). non-trivial = operands in different units; distinct by (kind, from, to, decade)')
ASSUMPTIONS = ['SI definitions in vf/ref/si.py (exact rationals x pi^k), independent of the library tables',
               'conversion tolerance 8 ulp, round trip 16 ulp',
               'comparison zones: relative margin > 1e-9 determined; < 4 ulp same magnitude; in between either outcome accepted']
HEADLINE = ['conversions', 'roundtrips', 'inplace', 'comparisons', 'cmp_determined', 'cmp_same_magnitude', 'near_threshold', 'unit_pairs_done']
OPS = {'==': operator.eq, '!=': operator.ne, '<': operator.lt, '<=': operator.le, '>': operator.gt, '>=': operator.ge}
TOL = 1e-12
SWAP = {'==': '==', '!=': '!=', '<': '>', '<=': '>=', '>': '<', '>=': '<='}


def floors(tier):
    return {'set:unit_pairs': 607, 'conversions': 20000, 'comparisons': 200000, 'cmp_determined': 50000, 'cmp_same_magnitude': 20000, 'reused_operand_comparisons': 20000, 'shared_state_conversions': 2000}


def n_cases(tier):
    return 607


def all_pairs():
    out = []
    for k in SI.KINDS:
        for u1 in SI.units(k):
            for u2 in SI.units(k):
                out.append((k, u1, u2))
    return out


def magnitudes(rng, kind, tier, n):
    lo, hi = (-12, 12) if tier == 'quick' else (-30, 30)
    vals = [1.0, 0.1, 1000.0, 2.5e-3, 14.5, 3, 7, 1e-7, 360.0, 0.35, 1e151, 3e200, 2e-151]          # also far-out but finite magnitudes
    for _ in range(n):
        vals.append(10 ** rng.uniform(lo, hi))
    for _ in range(n // 3):
        vals.append(float(f'{10 ** rng.uniform(-6, 6):.3g}'))
    sc = SI.SIGN.get(kind)
    out = []
    for v in vals:
        out.append(v)
        if sc is None:
            out.append(-v)
    if sc != '>0':
        out += [0.0, 0]
    return out


def lib(kind):
    import gearpy.units as U
    return getattr(U, kind)


def check_conversion(ctx, kind, u1, u2, x, case):
    K = lib(kind)
    try:
        q = K(x, u1)
        r = q.to(u2)
    except Exception as ex:
        ctx.violation('C05:conversion-raised', {'kind': kind, 'value': x, 'from': u1, 'to': u2, 'exception': type(ex).__name__ + ': ' + str(ex)[:100]}, case)
        return
    exp = SI.convert(kind, x, u1, u2)
    ctx.count('conversions')
    ctx.count('evaluations')
    up = SI.ulps_apart(float(r.value), exp)
    ctx.max('worst_conversion_ulp', up)
    if type(r) is not K or r.unit != u2 or up > 8:
        ctx.violation('C05:conversion-value', {'kind': kind, 'value': x, 'from': u1, 'to': u2, 'got': [r.value, r.unit, type(r).__name__],
                                               'reference': exp, 'ulps': up}, case)
        return
    if q.value != x or q.unit != u1 or (r is q and u1 != u2):
        ctx.violation('C05:copy-conversion-mutated-receiver', {'kind': kind, 'value': x, 'from': u1, 'to': u2, 'receiver_after': [q.value, q.unit]}, case)
        return
    # in place
    q2 = K(x, u1)
    try:
        # the documented signature is to(target_unit, inplace=False): the flag is passed positionally half of the time
        r2 = q2.to(u2, True) if hash_small(x) % 2 else q2.to(u2, inplace=True)
    except Exception as ex:
        # the copying conversion of the same value succeeded a moment ago
        ctx.violation('C05:inplace-conversion-raised', {'kind': kind, 'value': x, 'from': u1, 'to': u2, 'copy': [r.value, r.unit],
                                                        'exception': type(ex).__name__ + ': ' + str(ex)[:100]}, case)
        return
    ctx.count('inplace')
    if r2 is not q2 or q2.unit != u2 or not (q2.value == r.value):
        ctx.violation('C05:inplace-differs-from-copy', {'kind': kind, 'value': x, 'from': u1, 'to': u2, 'inplace': [q2.value, q2.unit],
                                                        'copy': [r.value, r.unit], 'returned_same_object': r2 is q2}, case)
        return
    # the same object converted again (in place, then copy): a conversion must not depend on the object's history
    us = SI.units(kind)
    u3 = us[(us.index(u2) + 1 + (hash_small(x) % max(1, len(us) - 1))) % len(us)]
    try:
        q2.to(u3, inplace=True)
        again = q2.to(u1)
        eq = (q2 == K(x, u1)) if u3 == u1 else None
    except ValueError:
        again = None              # sign-constrained kind underflowing on the way (defect D14 territory, judged by C19)
    except Exception as ex:
        ctx.violation('C05:chained-conversion-raised', {'kind': kind, 'value': x, 'chain': [u1, u2, u3, u1], 'exception': type(ex).__name__ + ': ' + str(ex)[:100]}, case)
        return
    if again is not None:
        ctx.count('chained_conversions')
        e3 = SI.convert(kind, x, u1, u3)
        if q2.unit != u3 or SI.ulps_apart(float(q2.value), e3) > 16 or again.unit != u1 or SI.ulps_apart(float(again.value), float(x)) > 32:
            if not (x != 0 and (q2.value == 0 or again.value == 0)):          # underflow artefacts are C19's D14
                ctx.violation('C05:conversion-depends-on-history', {'kind': kind, 'value': x, 'chain': [u1, u2 + ' (in place)', u3 + ' (in place)', u1 + ' (copy)'],
                                                                    'after_second_inplace': [q2.value, q2.unit], 'reference': e3, 'back': [again.value, again.unit]}, case)
                return
    # there and back
    try:
        back = r.to(u1)
    except Exception as ex:
        ctx.violation('C05:roundtrip-raised', {'kind': kind, 'value': x, 'from': u1, 'to': u2, 'exception': type(ex).__name__}, case)
        return
    ctx.count('roundtrips')
    ub = SI.ulps_apart(float(back.value), float(x))
    ctx.max('worst_roundtrip_ulp', ub)
    if back.unit != u1 or ub > 16:
        ctx.violation('C05:roundtrip', {'kind': kind, 'value': x, 'from': u1, 'to': u2, 'back': [back.value, back.unit], 'ulps': ub}, case)


def hash_small(x):
    return int(abs(x) * 7919) % 97 if x == x and abs(x) < 1e300 else 0


def oracle_cmp(sa, sb):
    """zone and the determined truth table on SI magnitudes"""
    if sa == sb:
        return 'same', 0.0
    m = abs(sa - sb) / max(abs(sa), abs(sb))
    if m > 1e-9:
        return 'determined', m
    if abs(sa - sb) <= 4 * max(math.ulp(sa), math.ulp(sb)):
        return 'same', m
    return 'near', m


def documented_rule(op, av, au, bv_in_a_unit, same_unit, bv):
    """the library's documented comparison rule (absolute 1e-12 in the left operand's unit), own conversion"""
    if same_unit:
        return OPS[op](av, bv), False
    d = av - bv_in_a_unit
    noise = 16 * max(math.ulp(av), math.ulp(bv_in_a_unit))
    amb = abs(abs(d) - TOL) <= noise
    res = {'==': abs(d) < TOL, '!=': abs(d) > TOL, '>': d > TOL, '>=': d >= -TOL, '<': d < -TOL, '<=': d <= TOL}[op]
    return res, amb


def check_comparisons(ctx, ka, kb, u1, u2, x, delta, case):
    """a = ka(x, u1); b = kb(same magnitude * (1+delta), u2)"""
    A, Bc = lib(ka), lib(kb)
    if delta == 'ulp+':
        y = math.nextafter(x, math.inf)
    elif delta == 'ulp-':
        y = math.nextafter(x, -math.inf)
    else:
        y = x * (1 + delta)
    fam = SI.FAMILY.get(ka, ka)
    bv = SI.convert(fam, y, u1, u2) if u1 != u2 else y
    try:
        a, b = A(x, u1), Bc(bv, u2)
    except ValueError:
        return                       # sign constraint of the kind: not a comparison case
    sa = SI.to_si(fam, x, u1)
    sb = SI.to_si(fam, bv, u2)
    if u1 == u2:
        sa, sb = x, bv               # same unit: magnitudes compare exactly as the values do
    for (p, q, sp, sq, up, uq) in ((a, b, sa, sb, u1, u2), (b, a, sb, sa, u2, u1)):
        zone, m = oracle_cmp(sp, sq)
        if up == uq:
            zone = 'determined'      # same unit: the values themselves are the magnitudes, compared exactly
        for opn, opf in OPS.items():
            try:
                got = opf(p, q)
            except Exception as ex:
                ctx.violation('C05:comparison-raised', {'op': opn, 'left': [type(p).__name__, p.value, p.unit], 'right': [type(q).__name__, q.value, q.unit],
                                                        'exception': type(ex).__name__}, case)
                return
            ctx.count('comparisons')
            if zone == 'near':
                ctx.count('near_threshold')
                continue
            if zone == 'determined':
                exp = opf(sp, sq)
                ctx.count('cmp_determined')
            else:
                exp = opn in ('==', '<=', '>=')
                ctx.count('cmp_same_magnitude')
            if got is exp or got == exp:
                continue
            # disagreement with the SI oracle: is it exactly the library's documented absolute-1e-12 rule (defect D9)?
            # The rule runs in the unit of the operand whose method executes: the left one, or -- python's rich
            # comparison dispatch -- the right one when its class is a proper subclass of the left one's.
            views = [(p, up, q, uq, opn)]
            if type(q) is not type(p) and isinstance(q, type(p)):
                views = [(q, uq, p, up, SWAP[opn])]
            wit = {'op': opn, 'left': [type(p).__name__, p.value, p.unit], 'right': [type(q).__name__, q.value, q.unit], 'got': got,
                   'si_oracle': exp, 'zone': zone, 'relative_margin': m}
            hit = None
            for (l, ul, r, ur, o) in views:
                if ul == ur:
                    continue
                r_in_l = SI.convert(fam, r.value, ur, ul)
                doc, amb = documented_rule(o, l.value, ul, r_in_l, False, r.value)
                wit['documented_rule_outcome'] = doc
                if doc == got or amb:
                    noise = 8 * max(math.ulp(l.value), math.ulp(r_in_l))
                    if zone == 'same' and noise >= TOL / 4:
                        hit = 'D9-i'
                    elif zone == 'determined' and abs(l.value - r_in_l) <= TOL + noise:
                        hit = 'D9-ii'
            if hit:
                ctx.known_finding(hit, wit, case)
                continue
            ctx.violation('C05:comparison', wit, case)
            return


DELTAS = [0.0, 'ulp+', 'ulp-', 1e-15, -1e-15, 1e-12, -1e-12, 1e-9, -1e-9, 3e-9, 1e-6, -1e-6, 1e-3, -1e-3, 1.0, -0.5]


def family_kinds(kind):
    if kind in ('AngularPosition', 'Angle'):
        return ['AngularPosition', 'Angle']
    if kind in ('Time', 'TimeInterval'):
        return ['Time', 'TimeInterval']
    return [kind]


def one_pair(ctx, idx, kind, u1, u2, tier):
    rng = ctx.rng('pair', idx)
    case = {'kind': 'pair', 'index': idx, 'q': [kind, u1, u2]}
    ctx.seen('unit_pairs', f'{kind}:{u1}>{u2}')
    ctx.count('unit_pairs_done')
    nm = 10 if tier == 'quick' else 120
    for x in magnitudes(rng, kind, tier, nm):
        check_conversion(ctx, kind, u1, u2, x, case)
        if u1 != u2 and x:
            ctx.seen('nontrivial', f'{kind}:{u1}>{u2}:{int(math.floor(math.log10(abs(x))))}')
    nc = 5 if tier == 'quick' else 40
    xs = [1.0, 2.5e-3, 1000.0] + [10 ** rng.uniform(-12, 12) for _ in range(nc)] + [10 ** rng.uniform(-6, 9) for _ in range(nc)]
    if tier != 'quick':
        xs += [10 ** rng.uniform(-30, 30) for _ in range(nc)]
    for x in xs:
        for s in ((1, -1) if SI.SIGN.get(kind) is None else (1,)):
            for d in DELTAS:
                for kb in family_kinds(kind):
                    check_comparisons(ctx, kind, kb, u1, u2, s * x, d, case)
    if SI.SIGN.get(kind) != '>0':
        for kb in family_kinds(kind):
            if SI.SIGN.get(kb) != '>0':
                check_comparisons(ctx, kind, kb, u1, u2, 0.0, 0.0, case)
    reused_operand(ctx, kind, u1, u2, rng, case)
    for _ in range(3):
        shared_state(ctx, kind, u1, u2, rng, case)


def shared_state(ctx, kind, u1, u2, rng, case):
    """conversions must not share state between calls or between objects:
    (1) the object returned by a copy conversion is converted in place, then the original is asked for the same unit again;
    (2) another object of the kind converts another unit couple in between two identical conversions of the first one"""
    K = lib(kind)
    us = SI.units(kind)
    x = float(f'{10 ** rng.uniform(-2, 3):.4g}')
    try:
        a = K(x, u1)
        r1 = a.to(u2)
        u3 = us[(us.index(u2) + 1) % len(us)]
        r1.to(u3, inplace=True)
        r2 = a.to(u2)
        exp = SI.convert(kind, x, u1, u2)
        ctx.count('shared_state_conversions')
        if r2.unit != u2 or SI.ulps_apart(float(r2.value), exp) > 8 or a.value != x or a.unit != u1:
            ctx.violation('C05:copy-conversion-aliased', {'kind': kind, 'value': x, 'from': u1, 'to': u2, 'returned_copy_then_converted_in_place_to': u3,
                                                         'second_copy': [r2.value, r2.unit], 'reference': exp, 'original_after': [a.value, a.unit]}, case)
            return
        if u1 != u2 and not (a == K(x, u1)) :
            ctx.violation('C05:copy-conversion-aliased', {'kind': kind, 'value': x, 'unit': u1, 'what': 'the original no longer equals a fresh quantity of the same value and unit'}, case)
            return
        # (2) interleaving with another object
        y = float(f'{10 ** rng.uniform(-2, 3):.4g}')
        u4, u5 = us[(us.index(u1) + 2) % len(us)], us[(us.index(u2) + 3) % len(us)]
        first = a.to(u2).value
        other = K(y, u4).to(u5)
        again = a.to(u2).value
        ctx.count('shared_state_conversions')
        if SI.ulps_apart(float(other.value), SI.convert(kind, y, u4, u5)) > 8 or again != first or SI.ulps_apart(float(again), exp) > 8:
            ctx.violation('C05:conversion-depends-on-other-objects', {'kind': kind, 'object': [x, u1], 'to': u2, 'first': first, 'after_another_object_converted': again,
                                                                      'other_object': [y, u4, u5, other.value], 'reference': exp}, case)
            return
        # (3) a copy (copy.copy / copy.deepcopy) is a quantity of its own: converting the original in place afterwards does not reach it
        import copy as _copy
        o_ = K(x, u1)
        cp = _copy.deepcopy(o_) if len(u1) % 2 else _copy.copy(o_)
        o_.to(u3, inplace=True)
        r3 = cp.to(u2)
        ctx.count('shared_state_conversions')
        if type(cp) is not K or cp.unit != u1 or cp.value != x or r3.unit != u2 or SI.ulps_apart(float(r3.value), exp) > 8 or not (cp == K(x, u1)):
            ctx.violation('C05:copied-quantity-not-independent', {'kind': kind, 'value': x, 'unit': u1, 'original_converted_in_place_to': u3, 'copy': [cp.value, cp.unit],
                                                                  'copy_converted': [r3.value, r3.unit], 'reference': exp}, case)
            return
        # (4) a conversion the library refuses (unknown symbol, a unit of another kind, a non-string) leaves the quantity as it was
        bad_units = ['bar', 'N/mm^2', u1.upper() if u1.upper() != u1 else u1.lower(), u1 + ' ', '', 5, None]
        other_kind = SI.KINDS[(SI.KINDS.index(kind) + 3) % len(SI.KINDS)]
        bad_units.append([u_ for u_ in SI.units(other_kind) if u_ not in us][:1] or ['parsec'])
        bad_units[-1] = bad_units[-1][0]
        o2 = K(x, u1)
        for bu in bad_units:
            if bu in us:
                continue
            for inpl in (True, False):
                try:
                    o2.to(bu, inplace=inpl)
                    ctx.violation('C05:unknown-unit-accepted', {'kind': kind, 'unit': repr(bu), 'inplace': inpl}, case)
                    return
                except (KeyError, TypeError, ValueError):
                    pass
                ctx.count('refused_conversions')
                if o2.unit != u1 or o2.value != x:
                    ctx.violation('C05:refused-conversion-modified-the-quantity', {'kind': kind, 'value': x, 'unit': u1, 'refused_target': repr(bu), 'inplace': inpl,
                                                                                    'after': [o2.value, o2.unit]}, case)
                    return
        r4 = o2.to(u2)
        if SI.ulps_apart(float(r4.value), exp) > 8:
            ctx.violation('C05:refused-conversion-modified-the-quantity', {'kind': kind, 'value': x, 'unit': u1, 'converted_after_refusals': [r4.value, r4.unit], 'reference': exp}, case)
            return
        # comparisons repeated on the same two objects
        b = K(SI.convert(kind, x * 1.5, u1, u2), u2)
        outs = [(a < b, b > a, a == b) for _ in range(3)]
        if len(set(outs)) != 1:
            ctx.violation('C05:comparison-not-repeatable', {'kind': kind, 'a': [x, u1], 'b': [b.value, b.unit], 'outcomes': outs}, case)
    except ValueError:
        return


def reused_operand(ctx, kind, u1, u2, rng, case):
    """one object used as the right operand (and then as the left one) of comparisons against operands written in *several*
    units: a comparison must not depend on what the object was compared with before"""
    K = lib(kind)
    x = float(f'{10 ** rng.uniform(-3, 4):.4g}')
    try:
        b = K(x, u2)
    except ValueError:
        return
    sb = SI.to_si(kind, x, u2)
    us = SI.units(kind)
    for j in range(6):
        ua = us[(us.index(u1) + j) % len(us)]
        f = [0.5, 2.0, 0.999, 1.001, 30.0, 1 / 60][j]
        av = SI.convert(kind, x * f, u2, ua)
        try:
            a = K(av, ua)
        except ValueError:
            continue
        sa = SI.to_si(kind, av, ua)
        # keep clear of the library's absolute 1e-12 tolerance (defect D9 is judged by check_comparisons with its classifier):
        # the operands must differ by more than 1e-9 in *both* units
        if abs(av - SI.convert(kind, x, u2, ua)) <= 1e-9 or abs(x - SI.convert(kind, av, ua, u2)) <= 1e-9:
            ctx.count('reused_operand_skipped_d9_zone')
            continue
        for (p_, q_, sp, sq) in ((a, b, sa, sb), (b, a, sb, sa)):
            for opn, opf in OPS.items():
                got = opf(p_, q_)
                exp = opf(sp, sq)
                ctx.count('comparisons')
                ctx.count('reused_operand_comparisons')
                if got != exp:
                    ctx.violation('C05:comparison-depends-on-operand-history', {'op': opn, 'left': [p_.value, p_.unit], 'right': [q_.value, q_.unit], 'got': got,
                                                                               'si_oracle': exp, 'reused_operand': [x, u2], 'sequence_index': j}, case)
                    return


def shard(ctx):
    pairs = all_pairs()
    for i in ctx.my_cases(len(pairs)):
        one_pair(ctx, i, *pairs[i], ctx.tier)
    if ctx.shard == 0:
        K = lib('Torque')
        ctx.sample({'example': 'Torque(1,"kgfcm").to("mNm")', 'library': K(1, 'kgfcm').to('mNm').value, 'reference': SI.convert('Torque', 1, 'kgfcm', 'mNm')})
        ctx.sample({'example': 'AngularSpeed(1,"rpm").to("rad/s")', 'library': lib('AngularSpeed')(1, 'rpm').to('rad/s').value,
                    'reference': SI.convert('AngularSpeed', 1, 'rpm', 'rad/s')})


def finalize(cov, merged):
    cov['exhaustive'] = len(merged['sets'].get('unit_pairs', ())) == 607
    cov['exhaustive_dimension'] = 'all 607 ordered unit pairs of the 13 kinds (magnitudes are sampled)'


def replay(ctx, case):
    kind, u1, u2 = case['q']
    one_pair(ctx, case['index'], kind, u1, u2, ctx.tier)
