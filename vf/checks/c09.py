"""C09 -- gear tooth force and stresses equal the documented formulas (reference-model monitor)."""
import itertools
import math
from ..ref import si as SI
from ..ref import gears as RG
from ..sim import gen as GEN, build as B, mon as MON
from . import simcommon as SC

PROPERTY = 'C09'
RULE = ('(1) Lewis factor for every teeth number 10..650 (table ends at 500) for spur gears and for helical gears at >= 8 helix angles incl. 0 and 89.9 deg; '
        '(2) force / bending / contact stress of random spur and helical pairs and idlers in both mating roles, torques of either sign and zero, data in any unit; '
        '(3) worm wheels at all four pressure angles, both orientations, equal and unequal helix angles, face width above and below 0.67 d_worm; '
        '(4) every subset of the optional data (module, face width, elastic modulus, worm diameter) on both mates x role: the three is-computable flags and the '
        'ValueError for a contact stress whose mate lacks module or elastic modulus; (5) every force / stress sample recorded inside simulations recomputed. '
        'non-trivial = gear with all results computable and non-zero torque; distinct by (class, role, teeth decade, unit signature)')
ASSUMPTIONS = ['own copies of the Lewis and worm tables (vf/ref/gears.py)', 'base helix angle by the standard relation tan(beta_b) = tan(beta) cos(alpha_t) (which the code implements; the docstring has a typo)',
               'the worm gear tangential force value is outside the anchored mechanisms (only its flag is checked)', 'values at 1e-9 relative']
HEADLINE = ['lewis_spur', 'lewis_helical', 'force_checks', 'bending_checks', 'contact_checks', 'wormwheel_bending_checks', 'flag_checks', 'contact_valueerror_cases',
            'simulation_samples', 'zero_torque_cases', 'unequal_helix_worm_pairs', 'beyond_table_lookups']


def floors(tier):
    return {'lewis_spur': 641, 'lewis_helical': 5000, 'force_checks': 3000, 'bending_checks': 2000, 'contact_checks': 1500, 'wormwheel_bending_checks': 500,
            'flag_checks': 800, 'contact_valueerror_cases': 24, 'simulation_samples': 5000, 'zero_torque_cases': 50, 'unequal_helix_worm_pairs': 50,
            'beyond_table_lookups': 300, 'set:nontrivial': 100, 'set:teeth': 641}


def close(a, b, rel=1e-9):
    return a == b or abs(a - b) <= rel * max(abs(a), abs(b))


def U():
    return B.g().un


def mo():
    return B.g().mo


def rq(rng, kind, lo, hi):
    q = GEN.rq(rng, kind, lo, hi)
    return B.mkq(q)


def lewis_sweep(ctx, zs):
    J = U().InertiaMoment(1, 'gcm^2')
    m, bw = U().Length(1, 'mm'), U().Length(5, 'mm')
    betas = [0.0, 5.0, 15.0, 20.0, 30.0, 45.0, 60.0, 75.0, 89.9]
    for z in zs:
        case = {'kind': 'lewis', 'z': z}
        ctx.seen('teeth', z)
        ctx.count('evaluations')
        g = mo().SpurGear(name='g', n_teeth=z, inertia_moment=J, module=m, face_width=bw)
        ctx.count('lewis_spur')
        if z > 500:
            ctx.count('beyond_table_lookups')
        if not close(float(g.lewis_factor), RG.lewis(z), 1e-12):
            ctx.violation('C09:lewis-factor', {'class': 'SpurGear', 'n_teeth': z, 'got': float(g.lewis_factor), 'reference': RG.lewis(z)}, case)
            return
        for bd in betas:
            u = ['deg', 'rad', 'arcmin'][(z + int(bd)) % 3]
            ha = U().Angle(SI.convert('Angle', bd, 'deg', u) if u != 'deg' else bd, u)
            h = mo().HelicalGear(name='h', n_teeth=z, inertia_moment=J, module=m, face_width=bw, helix_angle=ha)
            ctx.count('lewis_helical')
            beta = SI.si(ha)
            zv = RG.virtual_teeth(z, beta)
            if zv > 500:
                ctx.count('beyond_table_lookups')
            exp = RG.lewis_helical(z, beta)
            if not close(float(h.lewis_factor), exp, 1e-9):
                ctx.violation('C09:lewis-factor', {'class': 'HelicalGear', 'n_teeth': z, 'helix_deg': bd, 'virtual_teeth': zv, 'got': float(h.lewis_factor), 'reference': exp}, case)
                return


def set_torques(g, rng, Tscale):
    Tl = rng.choice([0.0, rng.uniform(-1, 1) * Tscale, rng.uniform(-1, 1) * Tscale])
    Td = rng.choice([0.0, rng.uniform(-1, 1) * Tscale, rng.uniform(-1, 1) * Tscale])
    ul, ud = rng.choice(SI.units('Torque')), rng.choice(SI.units('Torque'))
    old_l, old_d = getattr(g, 'load_torque', None), getattr(g, 'driving_torque', None)
    if old_l is not None and old_d is not None and rng.random() < 0.35:
        # a gear evaluated before gets the same NUMBERS again, in other units (another torque altogether)
        ul, ud = rng.choice([u for u in SI.units('Torque') if u != old_l.unit]), rng.choice([u for u in SI.units('Torque') if u != old_d.unit])
        g.load_torque, g.driving_torque = U().Torque(old_l.value, ul), U().Torque(old_d.value, ud)
        return SI.si(g.load_torque), SI.si(g.driving_torque)
    g.load_torque = U().Torque(SI.from_si('Torque', Tl, ul), ul)
    g.driving_torque = U().Torque(SI.from_si('Torque', Td, ud), ud)
    return SI.si(g.load_torque), SI.si(g.driving_torque)


def pair_case(ctx, i):
    rng = ctx.rng('pair', i)
    case = {'kind': 'pair', 'index': i}
    helical = i % 2 == 1
    cls = mo().HelicalGear if helical else mo().SpurGear
    J = U().InertiaMoment(1, 'gcm^2')
    mod_si = GEN.sig(rng.uniform(3e-4, 5e-3), 2)
    beta_q = U().Angle(GEN.sig(rng.uniform(0, 60), 3), 'deg') if rng.random() < 0.8 else U().Angle(0, 'deg')
    n_g = 3 if i % 5 == 0 else 2
    gears = []
    for j in range(n_g):
        mu = rng.choice(SI.units('Length'))
        kw = dict(module=U().Length(SI.from_si('Length', mod_si, mu), mu), face_width=rq(rng, 'Length', 2e-3, 3e-2), elastic_modulus=rq(rng, 'Stress', 1e9, 3e11))
        if helical:
            hu = rng.choice(['deg', 'rad', 'arcmin', 'rot'])
            kw['helix_angle'] = U().Angle(SI.convert('Angle', beta_q.value, 'deg', hu), hu) if hu != 'deg' else beta_q
        z = rng.choice([rng.randint(10, 60), rng.randint(10, 650)])
        gears.append(cls(name=f'g{j}', n_teeth=z, inertia_moment=J, **kw))
    try:
        for a, b in zip(gears, gears[1:]):
            B.g().ut.add_gear_mating(master=a, slave=b, efficiency=0.9)
    except Exception as ex:
        # helix angles written in different units can be judged "different" by the library's absolute tolerance (defect D9, C07's known finding)
        ctx.count('mating_rejected_unit_noise')
        return
    beta = SI.si(beta_q) if helical else 0.0
    # every gear is evaluated twice with different torques on the same object (a second evaluation must not reuse anything
    # of the first one)
    def second_design():
        # the first gear goes into a second design: mated with ANOTHER slave (other teeth number, modulus, face width)
        mu = rng.choice(SI.units('Length'))
        kw = dict(module=U().Length(SI.from_si('Length', mod_si, mu), mu), face_width=rq(rng, 'Length', 2e-3, 3e-2), elastic_modulus=rq(rng, 'Stress', 1e9, 3e11))
        if helical:
            kw['helix_angle'] = beta_q
        g2 = cls(name='second', n_teeth=rng.randint(10, 300), inertia_moment=J, **kw)
        try:
            B.g().ut.add_gear_mating(master=gears[0], slave=g2, efficiency=0.8)
        except Exception:
            ctx.count('mating_rejected_unit_noise')
            return []
        ctx.count('gears_mated_a_second_time')
        return [gears[0], g2]
    todo = gears + gears + [second_design]
    k = -1
    while todo:
        g = todo.pop(0)
        if g is second_design:
            todo += second_design()
            continue
        k += 1
        role = 'master' if g.mating_role is mo().MatingMaster else 'slave'
        Tl, Td = set_torques(g, rng, 5.0)
        Tref = Tl if role == 'master' else Td
        mate = g.drives if role == 'master' else g.driven_by
        D1, D2 = SI.si(g.module) * g.n_teeth, SI.si(mate.module) * mate.n_teeth
        wit = {'class': type(g).__name__, 'role': role, 'n_teeth': g.n_teeth, 'module': g.module, 'face_width': g.face_width, 'elastic_modulus': g.elastic_modulus,
               'helix': getattr(g, 'helix_angle', None), 'load_torque': g.load_torque, 'driving_torque': g.driving_torque, 'mate_teeth': mate.n_teeth}
        try:
            g.compute_tangential_force()
            g.compute_bending_stress()
            g.compute_contact_stress()
        except Exception as ex:
            ctx.violation('C09:compute-raised', dict(wit, exception=type(ex).__name__ + ': ' + str(ex)[:150]), case)
            return
        ctx.count('evaluations')
        if Tref == 0:
            ctx.count('zero_torque_cases')
        Ft = RG.tangential_force(Tref, D1)
        Y = RG.lewis_helical(g.n_teeth, beta) if helical else RG.lewis(g.n_teeth)
        sb = RG.bending(Ft, SI.si(g.module), SI.si(g.face_width), Y)
        sc = RG.contact(Ft, SI.si(g.face_width), D1, D2, SI.si(g.elastic_modulus), SI.si(mate.elastic_modulus), beta)
        got = (SI.si(g.tangential_force), SI.si(g.bending_stress), SI.si(g.contact_stress))
        for name, gv, ev, cnt in (('tangential-force', got[0], Ft, 'force_checks'), ('bending-stress', got[1], sb, 'bending_checks'), ('contact-stress', got[2], sc, 'contact_checks')):
            ctx.count(cnt)
            if not close(gv, ev):
                ctx.violation('C09:' + name, dict(wit, got=gv, reference=ev), case)
                return
        if type(g.tangential_force).__name__ != 'Force' or type(g.bending_stress).__name__ != 'Stress' or type(g.contact_stress).__name__ != 'Stress':
            ctx.violation('C09:result-kind', wit, case)
            return
        if Tref != 0:
            ctx.seen('nontrivial', f'{type(g).__name__}|{role}|{int(math.log10(g.n_teeth) * 3)}|{g.module.unit}{g.face_width.unit}{g.elastic_modulus.unit}')
    if len(ctx.samples) < 2:
        g = gears[-1]
        ctx.sample({'class': type(g).__name__, 'n_teeth': g.n_teeth, 'role': 'slave', 'driving_torque': g.driving_torque, 'module': g.module,
                    'library': {'Ft_N': SI.si(g.tangential_force), 'bending_Pa': SI.si(g.bending_stress), 'contact_Pa': SI.si(g.contact_stress)},
                    'reference': {'Ft_N': Ft, 'bending_Pa': sb, 'contact_Pa': sc}})


def worm_case(ctx, i):
    rng = ctx.rng('worm', i)
    case = {'kind': 'worm', 'index': i}
    pa = [14.5, 20.0, 25.0, 30.0][i % 4]
    J = U().InertiaMoment(1, 'gcm^2')
    hx_w = GEN.sig(rng.uniform(2, RG.WORM[pa][0]), 3)
    hx_h = hx_w if i % 3 else GEN.sig(rng.uniform(2, RG.WORM[pa][0]), 3)
    d = rq(rng, 'Length', 4e-3, 4e-2)
    b = rq(rng, 'Length', 1e-3, 4e-2)
    mod = rq(rng, 'Length', 3e-4, 5e-3)
    pu = rng.choice(['deg', 'rad', 'arcmin'])
    paq = lambda: U().Angle(SI.convert('Angle', pa, 'deg', pu), pu) if pu != 'deg' else U().Angle(pa, 'deg')
    try:
        wg = mo().WormGear(name='wg', n_starts=rng.randint(1, 4), inertia_moment=J, pressure_angle=paq(), helix_angle=U().Angle(hx_w, 'deg'), reference_diameter=d)
        ww = mo().WormWheel(name='ww', n_teeth=rng.randint(10, 80), inertia_moment=J, pressure_angle=paq(), helix_angle=U().Angle(hx_h, 'deg'), module=mod, face_width=b)
    except Exception as ex:
        ctx.violation('C09:valid-worm-pair-rejected', {'pa': pa, 'unit': pu, 'exception': type(ex).__name__ + ': ' + str(ex)[:150]}, case)
        return
    f = 0.02
    for rnd in range(2):
        if rnd == 1:
            # the SAME wheel goes into a second design: another worm (other diameter and helix angle), possibly the other role;
            # nothing computed for the first mating may survive
            hx_w = GEN.sig(rng.uniform(2, RG.WORM[pa][0]), 3)
            d = rq(rng, 'Length', 4e-3, 4e-2)
            try:
                wg = mo().WormGear(name='wg2', n_starts=rng.randint(1, 4), inertia_moment=J, pressure_angle=paq(), helix_angle=U().Angle(hx_w, 'deg'), reference_diameter=d)
            except Exception as ex:
                ctx.violation('C09:valid-worm-pair-rejected', {'pa': pa, 'unit': pu, 'exception': type(ex).__name__ + ': ' + str(ex)[:150]}, case)
                return
        worm_master = (i % 2 == 0) if rnd == 0 else (rng.random() < 0.5)
        try:
            if worm_master:
                B.g().ut.add_worm_gear_mating(master=wg, slave=ww, friction_coefficient=f)
            else:
                B.g().ut.add_worm_gear_mating(master=ww, slave=wg, friction_coefficient=f)
        except ValueError:
            ctx.count('worm_mating_rejected')
            return
        if rnd == 1:
            ctx.count('wheels_mated_a_second_time')
        if hx_w != hx_h:
            ctx.count('unequal_helix_worm_pairs')
        Tl, Td = set_torques(ww, rng, 5.0)
        Tref = Td if worm_master else Tl
        wit = {'pressure_angle_deg': pa, 'worm_is_master': worm_master, 'worm_helix_deg': hx_w, 'wheel_helix_deg': hx_h, 'worm_diameter': d, 'face_width': b, 'module': mod,
               'n_teeth': ww.n_teeth, 'load_torque': ww.load_torque, 'driving_torque': ww.driving_torque, 'mating_number_of_this_wheel': rnd + 1}
        try:
            ww.compute_tangential_force()
            ww.compute_bending_stress()
        except Exception as ex:
            ctx.violation('C09:compute-raised', dict(wit, exception=type(ex).__name__ + ': ' + str(ex)[:150]), case)
            return
        ctx.count('evaluations')
        Ft = RG.tangential_force(Tref, SI.si(mod) * ww.n_teeth)
        sb = RG.worm_wheel_bending(Ft, SI.si(d), math.radians(hx_w), ww.n_teeth, SI.si(b), pa)
        ctx.count('force_checks')
        ctx.count('wormwheel_bending_checks')
        if not close(float(ww.lewis_factor), RG.WORM[pa][1], 1e-12):
            ctx.violation('C09:lewis-factor', dict(wit, got=float(ww.lewis_factor), reference=RG.WORM[pa][1]), case)
            return
        if not close(SI.si(ww.tangential_force), Ft):
            ctx.violation('C09:tangential-force', dict(wit, got=SI.si(ww.tangential_force), reference=Ft), case)
            return
        if not close(SI.si(ww.bending_stress), sb):
            ctx.violation('C09:worm-wheel-bending-stress', dict(wit, got=SI.si(ww.bending_stress), reference=sb, b_over_067d=SI.si(b) / (0.67 * SI.si(d))), case)
            return
        if Tref != 0:
            ctx.seen('nontrivial', f'WormWheel|{"slave" if worm_master else "master"}|{pa}|{b.unit}{d.unit}')


def subsets(keys):
    for r in range(len(keys) + 1):
        for c in itertools.combinations(keys, r):
            yield c


def flags_case(ctx, idx, cfg):
    """every subset of optional data on both mates x role: flags and the documented ValueError"""
    kind, s1, s2 = cfg
    case = {'kind': 'flags', 'index': idx}
    J = U().InertiaMoment(1, 'gcm^2')
    opt = dict(module=U().Length(1, 'mm'), face_width=U().Length(5, 'mm'), elastic_modulus=U().Stress(200, 'GPa'))
    T = U().Torque(0.3, 'Nm')
    if kind in ('spur', 'helical'):
        cls = mo().SpurGear if kind == 'spur' else mo().HelicalGear
        ex = {} if kind == 'spur' else dict(helix_angle=U().Angle(20, 'deg'))
        a = cls(name='a', n_teeth=15, inertia_moment=J, **ex, **{k: opt[k] for k in s1})
        b = cls(name='b', n_teeth=40, inertia_moment=J, **ex, **{k: opt[k] for k in s2})
        B.g().ut.add_gear_mating(master=a, slave=b, efficiency=0.9)
        for g, own, other, mate in ((a, s1, s2, b), (b, s2, s1, a)):
            g.load_torque = T
            g.driving_torque = T
            exp = ('module' in own, 'module' in own and 'face_width' in own, all(k in own for k in opt))
            got = (g.tangential_force_is_computable, g.bending_stress_is_computable, g.contact_stress_is_computable)
            ctx.count('flag_checks', 3)
            ctx.count('evaluations')
            wit = {'class': type(g).__name__, 'own_data': own, 'mate_data': other, 'role': 'master' if g is a else 'slave'}
            if got != exp:
                ctx.violation('C09:is-computable-flags', dict(wit, flags=got, expected=exp), case)
                return
            if exp[2]:
                g.compute_tangential_force()
                try:
                    g.compute_contact_stress()
                    out = 'value'
                except ValueError:
                    out = 'ValueError'
                except Exception as e_:
                    out = type(e_).__name__
                want = 'value' if ('module' in other and 'elastic_modulus' in other) else 'ValueError'
                if want == 'ValueError':
                    ctx.count('contact_valueerror_cases')
                if out != want:
                    ctx.violation('C09:contact-stress-with-incomplete-mate', dict(wit, outcome=out, expected=want), case)
                    return
    else:
        _, orient, diam = kind
        wg = mo().WormGear(name='wg', n_starts=2, inertia_moment=J, pressure_angle=U().Angle(20, 'deg'), helix_angle=U().Angle(15, 'deg'),
                           reference_diameter=U().Length(10, 'mm') if diam else None)
        wopt = {k: opt[k] for k in s2}
        ww = mo().WormWheel(name='ww', n_teeth=30, inertia_moment=J, pressure_angle=U().Angle(20, 'deg'), helix_angle=U().Angle(15, 'deg'), **wopt)
        pre = (ww.tangential_force_is_computable, ww.bending_stress_is_computable)
        exp_pre = ('module' in s2, 'module' in s2 and 'face_width' in s2)
        ctx.count('flag_checks', 2)
        if pre != exp_pre:
            ctx.violation('C09:is-computable-flags', {'class': 'WormWheel (unmated)', 'own_data': s2, 'flags': pre, 'expected': exp_pre}, case)
            return
        if orient == 'worm':
            B.g().ut.add_worm_gear_mating(master=wg, slave=ww, friction_coefficient=0.02)
        else:
            B.g().ut.add_worm_gear_mating(master=ww, slave=wg, friction_coefficient=0.02)
        got = (wg.tangential_force_is_computable, ww.tangential_force_is_computable, ww.bending_stress_is_computable)
        exp = (diam, 'module' in s2, 'module' in s2 and 'face_width' in s2 and diam)
        ctx.count('flag_checks', 3)
        ctx.count('evaluations')
        if got != exp:
            ctx.violation('C09:is-computable-flags', {'class': 'worm pair', 'orientation': orient, 'worm_diameter': diam, 'wheel_data': s2, 'flags': got, 'expected': exp}, case)
            return
    ctx.seen('flag_matrix', repr(cfg))


def flag_matrix():
    out = []
    for kind in ('spur', 'helical'):
        for s1 in subsets(('module', 'face_width', 'elastic_modulus')):
            for s2 in subsets(('module', 'face_width', 'elastic_modulus')):
                out.append((kind, s1, s2))
    for orient in ('worm', 'wheel'):
        for diam in (False, True):
            for s2 in subsets(('module', 'face_width')):
                out.append((('wormpair', orient, diam), (), s2))
    return out


def sim_monitor(ctx, ana, case):
    """recompute every recorded force / stress sample inside a simulation"""
    tr, spec = ana.tr, ana.spec
    els = [spec['motor']] + spec['chain']
    q = GEN.qsi
    for i, (e, te) in enumerate(zip(els, tr.els)):
        if 'tangential force' not in te['vars'] or e['type'] == 'wormgear':
            continue
        nxt = els[i + 1] if i + 1 < len(els) else None
        is_master = nxt is not None and nxt['rel']['type'] in ('gear', 'worm')       # the last mating declared on this gear made it master
        if te.get('role') in ('MatingMaster', 'MatingSlave') and e['rel']['type'] in ('gear', 'worm') and is_master:
            # a gear between two matings (idler): its public `mating_role` is the one of the mating declared LAST, and the order of
            # the declarations is free (sim/build.py declare_order, earlier designs, re-declared pairs): the formulas are stated
            # per role, so the role is read from the public attribute (C10 judges roles where they are assigned)
            is_master = te['role'] == 'MatingMaster'
        mate = nxt if is_master else els[i - 1]
        ref_series = te['vars']['load torque'] if is_master else te['vars']['driving torque']
        D1 = q(e['module']) * e['z']
        beta = q(e['helix']) if e['type'] == 'helical' else 0.0
        for k in range(ana.N):
            Ft = RG.tangential_force(ref_series[k], D1)
            ctx.count('simulation_samples')
            if not close(te['vars']['tangential force'][k], Ft):
                ctx.violation('C09:tangential-force-in-simulation', {'element': te['name'], 'instant': k, 'got': te['vars']['tangential force'][k], 'reference': Ft, 'role': 'master' if is_master else 'slave'}, case)
                return
            if 'bending stress' in te['vars']:
                if e['type'] == 'wormwheel':
                    pa = round(math.degrees(q(e['pa'])), 6)
                    sb = RG.worm_wheel_bending(Ft, q(mate['d']), q(mate['helix']), e['z'], q(e['face_width']), pa)
                else:
                    Y = RG.lewis_helical(e['z'], beta) if e['type'] == 'helical' else RG.lewis(e['z'])
                    sb = RG.bending(Ft, q(e['module']), q(e['face_width']), Y)
                ctx.count('simulation_samples')
                if not close(te['vars']['bending stress'][k], sb):
                    ctx.violation('C09:bending-stress-in-simulation', {'element': te['name'], 'class': te['cls'], 'instant': k, 'got': te['vars']['bending stress'][k], 'reference': sb}, case)
                    return
            if 'contact stress' in te['vars']:
                sc = RG.contact(Ft, q(e['face_width']), D1, q(mate['module']) * mate['z'], q(e['E']), q(mate['E']), beta)
                ctx.count('simulation_samples')
                if not close(te['vars']['contact stress'][k], sc):
                    ctx.violation('C09:contact-stress-in-simulation', {'element': te['name'], 'instant': k, 'got': te['vars']['contact stress'][k], 'reference': sc}, case)
                    return


def sim_case(ctx, i):
    rng = ctx.rng('sim', i)
    spec = GEN.gen_scenario(rng, dict(p_struct=1.0, p_continue=0.2, p_reset=0.0, n_lo=5, n_hi=20, p_idler=0.3))
    SC.simulate_and_monitor(ctx, spec, {'kind': 'sim', 'index': i}, [sim_monitor])


def shard(ctx):
    zs = list(range(10, 651))
    lewis_sweep(ctx, [zs[k] for k in ctx.my_cases(len(zs))])
    for i in ctx.my_cases(1600 if ctx.tier == 'quick' else 30000):
        pair_case(ctx, i)
    for i in ctx.my_cases(800 if ctx.tier == 'quick' else 20000):
        worm_case(ctx, i)
    fm = flag_matrix()
    for idx in ctx.my_cases(len(fm)):
        try:
            flags_case(ctx, idx, fm[idx])
        except Exception as ex:
            ctx.violation('C09:flag-matrix-raised', {'config': repr(fm[idx]), 'exception': type(ex).__name__ + ': ' + str(ex)[:150]}, {'kind': 'flags', 'index': idx})
    for i in ctx.my_cases(240 if ctx.tier == 'quick' else 8000):
        sim_case(ctx, i)


def finalize(cov, merged):
    cov['exhaustive'] = len(merged['sets'].get('teeth', ())) == 641 and len(merged['sets'].get('flag_matrix', ())) == len(flag_matrix())
    cov['exhaustive_dimension'] = 'teeth numbers 10..650 (spur and 9 helix angles) and the optional-data subset matrix'


def replay(ctx, case):
    k = case['kind']
    if k == 'lewis':
        lewis_sweep(ctx, [case['z']])
    elif k == 'pair':
        pair_case(ctx, case['index'])
    elif k == 'worm':
        worm_case(ctx, case['index'])
    elif k == 'flags':
        flags_case(ctx, case['index'], flag_matrix()[case['index']])
    else:
        sim_case(ctx, case['index'])
