"""C18 -- snapshot and export report the recorded history faithfully (cell oracle)."""
import itertools
import os
from ..ref import si as SI
from ..sim import gen as GEN, build as B, cells as CE
from . import simcommon as SC

PROPERTY = 'C18'
RULE = ('simulated powertrains (random chains with structural data so that force / stress / current columns exist; single, continued-in-another-unit and '
        'stopped runs); snapshot target times at recorded instants, midpoints, random interior points and both end points, in any time unit; variable subsets: '
        'every singleton and every pair of the 11 variables plus random subsets (thorough: all 2^11-1 spread over scenarios); random output units for every '
        'call, each unit used at least once. Oracle: own SI conversion and linear interpolation of the recorded histories; column set must be a subset of the '
        'requested labels; CSV files re-read with the csv module: one row per instant, time and every recorded variable converted. '
        'non-trivial = subset that is neither the default nor without effect; distinct by (subset, target kind)')
ASSUMPTIONS = ['column / row order is not part of the statement and is not judged', 'cells compared at 1e-9 (snapshot, interpolation) and 1e-12 (CSV) relative']
HEADLINE = ['second_history_after_reset', 'simulations', 'snapshots', 'snapshot_cells', 'exports', 'csv_cells', 'targets_grid', 'targets_mid', 'targets_random', 'targets_end', 'mixed_unit_histories']


def floors(tier):
    return {'snapshots': 1500, 'snapshot_cells': 15000, 'exports': 100, 'csv_cells': 100000, 'targets_grid': 300, 'targets_mid': 300, 'targets_random': 300,
            'targets_end': 100, 'mixed_unit_histories': 30, 'non_uniform_histories': 15, 'dotted_names': 50, 'second_history_after_reset': 15, 'set:subsets': 66, 'set:unit_values': 60, 'set:nontrivial': 100}


def n_cases(tier):
    return 320 if tier == 'quick' else 8000


def all_small_subsets():
    out = [[v] for v in CE.ALLV] + [list(p) for p in itertools.combinations(CE.ALLV, 2)]
    return out


def one(ctx, i):
    rng = ctx.rng('case', i)
    case = {'kind': 'c18', 'index': i}
    prof = dict(p_struct=0.9, p_currents=0.8, p_continue=0.0, p_reset=0.0, n_lo=6, n_hi=25, p_selflock=0.15)
    spec = GEN.gen_scenario(rng, prof)
    dt = spec['schedule'][0]['dt']
    mixed = i % 4 == 1
    if mixed:
        u2 = rng.choice([u for u in SI.units('TimeInterval') if u != dt['u']])
        d2 = GEN.reexpress(dt, u2)
        if rng.random() < 0.6:
            # another step size: the recorded time axis is then not uniformly spaced
            d2 = GEN.reexpress(GEN.Q('TimeInterval', dt['v'] * rng.choice([0.5, 2, 3, 0.25]), dt['u']), u2)
            ctx.count('non_uniform_histories')
        spec['schedule'].append({'op': 'run', 'dt': d2, 'T': GEN.reexpress(GEN.Q('TimeInterval', GEN.qsi(d2) * rng.randint(3, 10), 'sec'), u2)})
    if i % 3 == 0:
        # element names are free text: dots, spaces, dashes
        for j_, e_ in enumerate(spec['chain']):
            e_['name'] = f"{e_['name']}.{j_}" if j_ % 2 else f"{e_['name']} stage-{j_}.1"
        ctx.count('dotted_names')
    if i % 6 == 1 and len(spec['chain']) >= 2:
        # two elements whose names differ only by a trailing blank (distinct names for Powertrain, hence two files)
        spec['chain'][0]['name'], spec['chain'][1]['name'] = 'part', 'part '
        ctx.count('names_differing_by_a_trailing_blank')
    if i % 4 == 2:
        GEN.add_const_rules(rng, spec)
    if i % 4 == 3:
        SC.add_stop(rng, spec)
    try:
        b = B.build(spec)
    except Exception as ex:
        ctx.violation('harness:valid-scenario-rejected', {'exception': type(ex).__name__ + ': ' + str(ex)[:200]}, case)
        return
    runs = B.run_schedule(b)
    if any(r['exc'] for r in runs):
        ctx.count('failed_runs')
        return
    tr = B.extract(b)
    if tr.n < 3:
        ctx.count('too_short')
        return
    ctx.count('simulations')
    if mixed:
        ctx.count('mixed_unit_histories')
    if rng.random() < 0.3:
        # the user prepares the next study through the public setters (duty cycle, position and speed of the output): the
        # recorded history, and therefore every snapshot and export of it, is unaffected
        un_ = B.g().un
        b.motor.pwm = rng.choice([0.4, -1, 0, 0.123])
        b.last.angular_position = un_.AngularPosition(rng.uniform(-3, 3), 'rad')
        b.last.angular_speed = un_.AngularSpeed(rng.uniform(-3, 3), 'rad/s')
        ctx.count('histories_followed_by_setter_calls')
    subsets = all_small_subsets()
    todo = [subsets[(i * 7 + j) % len(subsets)] for j in range(6)]
    for _ in range(4):
        todo.append([v for v in CE.ALLV if rng.random() < 0.4] or [rng.choice(CE.ALLV)])
    if ctx.tier == 'thorough':
        for j in range(8):
            mask = (i * 8 + j) % (2 ** 11 - 1) + 1
            todo.append([v for k, v in enumerate(CE.ALLV) if mask >> k & 1])
    todo.append(None)
    todo.append('dup')
    adv = set().union(*[set(e['vars']) for e in tr.els])
    # the documented contract rejects variables no element records (ValueError 'Invalid variable'): request recorded ones only
    todo = [s_ if s_ is None or s_ == 'dup' else ([v for v in s_ if v in adv] or [rng.choice(sorted(adv))]) for s_ in todo]
    # a selection concatenated from two lists names a variable twice: the frame is the one of the selection without repetition
    dup_ = sorted(adv)[:2] + sorted(adv)[:1] + sorted(adv)[-1:]
    todo = [(dup_ if s_ == 'dup' else s_) for s_ in todo]
    for sub in todo:
        units = CE.random_units(rng)
        for a, u in units.items():
            ctx.seen('unit_values', f'{a}={u}')
        kind = rng.choice(['grid', 'mid', 'random', 'end', 'near'] if rng.random() < 0.9 else ['end'])
        k = rng.randrange(tr.n - 1)
        # 'near': a few millionths of the elapsed time away from a recorded instant (still strictly between two instants): the
        # answer is the interpolation there, not the neighbouring sample
        near_t = tr.time[k + 1] - min(4e-6 * tr.time[k + 1], 0.3 * (tr.time[k + 1] - tr.time[k]))
        ts = {'grid': tr.time[k], 'mid': (tr.time[k] + tr.time[k + 1]) / 2, 'random': tr.time[k] + rng.random() * (tr.time[k + 1] - tr.time[k]),
              'end': rng.choice([tr.time[0], tr.time[-1]]), 'near': near_t}[kind]
        tu = rng.choice(SI.units('Time'))
        if kind == 'end' or (kind == 'grid' and rng.random() < 0.5):
            # the recorded instant itself (raw value and unit): an end point re-expressed in another unit may round to just
            # outside the simulated interval, which the library rightly rejects
            inst = b.pt.time[k] if kind == 'grid' else (b.pt.time[0] if ts == tr.time[0] else b.pt.time[-1])
            tq = GEN.Q('Time', inst.value, inst.unit)
        else:
            tq = GEN.Q('Time', SI.from_si('Time', ts, tu), tu)
        ctx.count('targets_' + kind)
        ctx.count('evaluations')
        ok = CE.check_snapshot(ctx, b, tr, tq, sub, units, case)
        if not ok:
            relabel(ctx)
            return
        if sub is not None:
            ctx.seen('subsets', '+'.join(sub))
            if set(sub) & adv:
                ctx.seen('nontrivial', '+'.join(sub) + '|' + kind)
    units = CE.random_units(rng)
    tu = rng.choice(SI.units('Time'))
    ok = CE.check_export(ctx, b, tr, os.path.join(ctx.scratch, f'exp{i}'), tu, units, case)
    if not ok:
        relabel(ctx)
        return
    if i % 4 == 0 and not spec.get('stop'):
        # a second history of the same length on the same powertrain (reset, other initial conditions, same schedule):
        # snapshots and exports must report the *current* history, whatever was asked before the reset
        first_calls = []
        for sub in todo[:4]:
            un_ = CE.random_units(rng)
            k = rng.randrange(tr.n - 1)
            tq = GEN.Q('Time', 0.5 * (tr.time[k] + tr.time[k + 1]), 'sec')
            if not CE.check_snapshot(ctx, b, tr, tq, sub, un_, case):
                relabel(ctx)
                return
            first_calls.append((sub, un_, tq))
        if b.control is None and b.stop is None and rng.random() < 0.5:
            # the reset is issued through a NEW Powertrain object assembled from the same motor (it shares the elements)
            b.pt = B.g().Powertrain(motor=b.motor)
            b.pt.reset()
            b.solver = B.g().Solver(powertrain=b.pt)
            ctx.count('second_history_through_a_new_powertrain_object')
        else:
            b.pt.reset()
        b.spec['ic'] = dict(spec['ic'], speed=GEN.Q('AngularSpeed', (GEN.qsi(spec['ic']['speed']) or spec['_ref']['w_out']) * -0.7, 'rad/s'),
                            pos=GEN.Q('AngularPosition', GEN.qsi(spec['ic']['pos']) + 0.3, 'rad'))
        B.apply_ic(b)
        runs2 = B.run_schedule(b)
        if not any(r['exc'] for r in runs2):
            tr2 = B.extract(b)
            ctx.count('second_history_after_reset')
            for sub, un_, tq in first_calls:
                if tr2.n == tr.n and not CE.check_snapshot(ctx, b, tr2, tq, sub, un_, case):
                    relabel(ctx)
                    return
            if not CE.check_export(ctx, b, tr2, os.path.join(ctx.scratch, f'exp{i}b'), tu, units, case):
                relabel(ctx)
                return
    if len(ctx.samples) < 2:
        sub = todo[0]
        units = CE.random_units(rng)
        df = b.pt.snapshot(target_time=B.mkq(GEN.Q('Time', tr.time[1], 'sec')), variables=list(sub), print_data=False, **units)
        ctx.sample({'variables': sub, 'columns_returned': list(df.columns), 'elements': [e['name'] for e in tr.els], 'instants': tr.n,
                    'first_row': {c: float(df.iloc[0][c]) for c in df.columns}})


def relabel(ctx):
    for v in ctx.violations:
        if not v['monitor'].startswith(('C18:', 'harness')):
            v['monitor'] = 'C18:' + v['monitor']


def shard(ctx):
    for i in ctx.my_cases(n_cases(ctx.tier)):
        one(ctx, i)


def replay(ctx, case):
    one(ctx, case['index'])
