"""C03 -- equation of motion and time-step update of the output element."""
from ..sim import mon as MON
from . import simcommon as SC

PROPERTY = 'C03'
RULE = ('same simulation workload as C01 with inertias in all 8 inertia units and dt in all 4 time units, continued runs with changed dt / unit; '
        'per un-held instant: acceleration = net torque / J_eq (J_eq by the documented reduction, recomputed in SI); per consecutive pair: '
        'speed advances by previous acceleration * dt (clamped to 0 only where the reference lock machine admits a held state), position advances by '
        'advanced speed * dt. non-trivial = >=3 elements, >=2 ratios != 1, non-zero acceleration; distinct by topology x (inertia unit, time unit) x schedule')
ASSUMPTIONS = ['held/free decided by the reference lock machine (vf/ref/lock.py) from public histories, never by "speed happens to be 0"',
               '1e-9 relative with cancellation floors']
HEADLINE = ['scenarios', 'instants', 'free_instants', 'held_instants', 'step_pairs', 'continuation_boundaries', 'near_threshold']


def floors(tier):
    return {'instants': 5000, 'free_instants': 3000, 'held_instants': 200, 'step_pairs': 5000, 'continuation_boundaries': 30,
            'set:unit_pairs': 24 if tier == 'quick' else 32, 'set:nontrivial': 20}


def n_cases(tier):
    return 480 if tier == 'quick' else 16000


def nontrivial(spec, ana):
    return len(spec['chain']) >= 2 and sum(1 for r in ana.nums['r'] if r != 1) >= 2 and any(a != 0 for a in ana.L['angular acceleration'][:ana.N])


def one(ctx, spec, case):
    dtu = spec['schedule'][0]['dt']['u']
    for e in [spec['motor']] + spec['chain']:
        ctx.seen('unit_pairs', e['J']['u'] + '|' + dtu)
    SC.simulate_and_monitor(ctx, spec, case, [MON.check_c03], nontrivial=nontrivial, key_extra=spec['motor']['J']['u'] + dtu)


def shard(ctx):
    for i in ctx.my_cases(n_cases(ctx.tier)):
        spec = SC.general_scenario(ctx.rng('case', i), i, ctx.tier, extra_prof={'p_nonmultiple_T': 0.15})
        one(ctx, spec, {'kind': 'scenario', 'index': i, 'spec': spec})


def replay(ctx, case):
    one(ctx, case['spec'], case)
