"""C16 -- a stop condition ends the run at the first instant it holds (differential monitor)."""
import copy
import math
from ..ref import si as SI
from ..sim import gen as GEN, build as B
from . import simcommon as SC

PROPERTY = 'C16'
RULE = ('each case runs one generated model twice: without stop condition (baseline) and with it. The comparison sensor <op> threshold is evaluated by the '
        'harness on the baseline recorded series (SI, three zones) giving the first index k* >= 1 at which it is determinedly true; the stopped run must have '
        'exactly k*+1 instants (or one of the near-threshold instants before it), every history must be the bit-exact prefix of the baseline, and what the solver '
        'compared at each call must be the sample recorded at that instant. Sensors: encoder / tachometer on any element, amperometer; five operators; thresholds '
        'in any unit placed before, inside (random quantile, exactly at a recorded sample, 1 ulp beside it) and beyond the reachable range; fresh and continued '
        'runs. non-trivial = early stop at 1 < k* < N-1; distinct by (sensor, operator, placement, topology)')
ASSUMPTIONS = ['zones: relative margin > 1e-9 determined; a raw difference <= 2e-12 in the sensed value unit (library absolute tolerance, defect D9 recorded under C05) or a '
               'relative margin <= 1e-9 is near-threshold: stopping there or not are both accepted', 'instant 0 of a fresh run is not checked by the solver (first computed instant after the initial one)']
HEADLINE = ['two_stage_cases', 'cases', 'early_stops', 'full_length_runs', 'prefix_instants_compared', 'sensor_reads_checked', 'continued_cases', 'near_threshold', 'stops_gt', 'stops_ge', 'stops_eq', 'stops_lt', 'stops_le']
VAR = {'enc': 'angular position', 'tach': 'angular speed', 'amp': 'electric current'}
KIND = {'enc': 'AngularPosition', 'tach': 'AngularSpeed', 'amp': 'Current'}
PY = {'gt': lambda a, b: a > b, 'ge': lambda a, b: a >= b, 'eq': lambda a, b: a == b, 'lt': lambda a, b: a < b, 'le': lambda a, b: a <= b}


def floors(tier):
    return {'cases': 500, 'early_stops': 250, 'full_length_runs': 60, 'stops_gt': 25, 'stops_ge': 25, 'stops_eq': 10, 'stops_lt': 25, 'stops_le': 25,
            'continued_cases': 60, 'two_stage_cases': 40, 'same_condition_object_reused': 15, 'condition_reused_after_reset_with_other_units': 40, 'sensor_reads_checked': 5000, 'set:nontrivial': 60, 'set:sensor_op_placement': 45}


def n_cases(tier):
    return 800 if tier == 'quick' else 24000


def execute(spec):
    b = B.build(spec)
    runs = B.run_schedule(b)
    return b, runs, B.extract(b, raw=True)


def truth_states(ser, raw, thr, op, kind):
    thr_si = GEN.qsi(thr)
    state = []
    for k in range(len(ser)):
        v, u = raw[k]
        vs = ser[k]
        if u == thr['u']:
            state.append('T' if PY[op](v, thr['v']) else 'F')
            continue
        thr_in_u = SI.convert(kind, thr['v'], thr['u'], u)
        m = abs(vs - thr_si) / max(abs(vs), abs(thr_si), 1e-300)
        if m <= 1e-9 or abs(v - thr_in_u) <= 2e-12:
            state.append('N')
        else:
            state.append('T' if PY[op](vs, thr_si) else 'F')
    return state


def two_stage(ctx, i):
    """run with stop condition A (ends early), then continue with another stop condition B: the continuation must again end
    at the first instant at which B holds (or run its full length)"""
    rng = ctx.rng('two', i)
    case = {'kind': 'twostage', 'index': i}
    spec = GEN.gen_scenario(rng, dict(p_continue=0.0, p_reset=0.0, n_lo=20, n_hi=70, p_currents=0.8))
    n = spec['_ref']['n']
    dt = spec['schedule'][0]['dt']
    try:
        b0, r0, t0 = execute(spec)
    except Exception as ex:
        ctx.violation('harness:valid-scenario-rejected', {'exception': type(ex).__name__ + ': ' + str(ex)[:200]}, case)
        return
    if any(r['exc'] for r in r0):
        return
    sensors = ['enc', 'tach'] + (['amp'] if spec['motor']['i0'] is not None else [])
    sk = rng.choice(sensors)
    idx = 0 if sk == 'amp' else rng.randrange(len(spec['chain']) + 1)
    ser, raw = t0.els[idx]['vars'][VAR[sk]], t0.els[idx]['units'][VAR[sk]]
    N = t0.n
    if any(not math.isfinite(x) for x in ser):
        return
    lo, hi = min(ser), max(ser)
    span = (hi - lo) or max(abs(hi), 1e-6)
    op = rng.choice(['gt', 'ge', 'lt', 'le'])

    def thr_at(fr):
        ku = rng.choice(SI.units(KIND[sk]))
        return GEN.Q(KIND[sk], (lo + fr * span) / SI.FACT[KIND[sk]][ku], ku)
    fa = rng.uniform(0.1, 0.6)
    fb = rng.choice([rng.uniform(0.05, 0.95), 1.6, -0.6])
    A, Bq = thr_at(fa if op in ('gt', 'ge') else 1 - fa), thr_at(fb if op in ('gt', 'ge') else 1 - fb)
    same_object = rng.random() < 0.4
    if same_object:
        Bq = A          # the very same StopCondition object is passed to both runs
    sa = truth_states(ser, raw, A, op, KIND[sk])
    k1 = next((k for k in range(1, N) if sa[k] != 'F'), None)
    if k1 is None or sa[k1] != 'T' or not (1 <= k1 <= N - 4):
        ctx.count('two_stage_skipped')
        return
    sb = truth_states(ser, raw, Bq, op, KIND[sk])
    acceptable = []
    for k in range(k1 + 1, N):
        if sb[k] == 'N':
            acceptable.append(k)
        elif sb[k] == 'T':
            acceptable.append(k)
            break
    else:
        acceptable.append(N - 1)
    sp = copy.deepcopy(spec)
    sp['schedule'] = [{'op': 'run', 'dt': dt, 'T': GEN.mulq(dt, n), 'stop_spec': {'sensor': sk, 'elem': idx, 'op': op, 'thr': A}},
                      {'op': 'run', 'dt': dt, 'T': GEN.mulq(dt, N - 1 - k1), 'stop_spec': {'sensor': sk, 'elem': idx, 'op': op, 'thr': Bq}}]
    if same_object:
        sp['stop'] = {'sensor': sk, 'elem': idx, 'op': op, 'thr': A}
        sp['schedule'] = [{'op': 'run', 'dt': dt, 'T': GEN.mulq(dt, n)}, {'op': 'run', 'dt': dt, 'T': GEN.mulq(dt, N - 1 - k1)}]
        ctx.count('same_condition_object_reused')
    try:
        b1, r1, t1 = execute(sp)
    except Exception as ex:
        ctx.violation('C16:stopped-run-raised', {'exception': type(ex).__name__ + ': ' + str(ex)[:200]}, case)
        return
    if any(r['exc'] for r in r1):
        ctx.violation('C16:stopped-run-raised', {'exception': [r['exc'] for r in r1]}, case)
        return
    if getattr(b1, 'modified_thresholds', None):
        ctx.violation('C16:threshold-object-modified-by-the-run', {'thresholds': b1.modified_thresholds[:2]}, case)
        return
    ctx.count('cases')
    ctx.count('evaluations')
    ctx.count('two_stage_cases')
    wit = {'stop_A': {'sensor': sk, 'elem': idx, 'op': op, 'thr': A}, 'stop_B': {'sensor': sk, 'elem': idx, 'op': op, 'thr': Bq}, 'same_object': same_object, 'baseline_instants': N, 'first_true_A': k1,
           'run1_instants': r1[0]['n1'], 'total_instants': t1.n, 'acceptable_last_indices_B': acceptable[:6]}
    if r1[0]['n1'] != k1 + 1:
        ctx.violation('C16:wrong-stop-instant', wit, case)
        return
    if (t1.n - 1) not in acceptable:
        ctx.violation('C16:wrong-stop-instant-in-continuation-after-a-stopped-run', wit, case)
        return
    # the continuation recomputes its instants from the previous final time, so time-dependent loads may differ in the last
    # bits from the single baseline run: prefix compared at 1e-9 here (bit-exact only within one run, see one())
    for ea, eb in zip(t0.els, t1.els):
        for v in ea['vars']:
            sa_, sb_ = ea['vars'][v][:t1.n], eb['vars'].get(v, [])
            sc = max([abs(x) for x in sa_ if math.isfinite(x)] or [0.0])
            if len(sb_) != t1.n or any(not (x == y or abs(x - y) <= 1e-9 * max(abs(x), abs(y)) + 1e-9 * sc or (x != x and y != y)) for x, y in zip(sa_, sb_)):
                ctx.violation('C16:history-not-prefix-of-baseline', dict(wit, element=ea['name'], variable=v), case)
                return
    ctx.count('prefix_instants_compared', t1.n)
    if t1.n < N:
        ctx.count('early_stops')
        ctx.count('stops_' + op)
    else:
        ctx.count('full_length_runs')


def reset_reuse(ctx, i):
    """one StopCondition object used for a run, then -- after reset and re-applying the same initial conditions written in
    *other units* -- for the rerun: the rerun must stop at the same instant with the same history (1e-9)"""
    rng = ctx.rng('reuse', i)
    case = {'kind': 'resetreuse', 'index': i}
    spec = GEN.gen_scenario(rng, dict(p_continue=0.0, p_reset=0.0, n_lo=15, n_hi=60, p_currents=0.8, p_selflock=0.1, p_ic_zero=0.0, p_inplace_args=0.0, p_noload_start=0.0))
    try:
        b0, r0, t0 = execute(spec)
    except Exception as ex:
        ctx.violation('harness:valid-scenario-rejected', {'exception': type(ex).__name__ + ': ' + str(ex)[:200]}, case)
        return
    if any(r['exc'] for r in r0):
        return
    sk = rng.choice(['enc', 'tach'])
    idx = rng.randrange(len(spec['chain']) + 1)
    ser, raw = t0.els[idx]['vars'][VAR[sk]], t0.els[idx]['units'][VAR[sk]]
    if any(not math.isfinite(x) for x in ser):
        return
    lo, hi = min(ser), max(ser)
    span = (hi - lo) or max(abs(hi), 1e-6)
    op = rng.choice(['gt', 'ge', 'lt', 'le'])
    fr = rng.uniform(0.15, 0.85)
    u_sensed = raw[0][1]
    # threshold written in the unit the sensor reads in during the first run
    thr = GEN.Q(KIND[sk], (lo + (fr if op in ('gt', 'ge') else 1 - fr) * span) / SI.FACT[KIND[sk]][u_sensed], u_sensed)
    st = truth_states(ser, raw, thr, op, KIND[sk])
    k1 = next((k for k in range(1, t0.n) if st[k] != 'F'), None)
    if k1 is None or st[k1] != 'T' or k1 >= t0.n - 1:
        ctx.count('reset_reuse_skipped')
        return
    pu = rng.choice([u for u in SI.units('AngularPosition') if u != spec['ic']['pos']['u']])
    su = rng.choice([u for u in SI.units('AngularSpeed') if u != spec['ic']['speed']['u']])
    sp = copy.deepcopy(spec)
    sp['stop'] = {'sensor': sk, 'elem': idx, 'op': op, 'thr': thr}
    run = sp['schedule'][0]
    sp['schedule'] = [run, {'op': 'reset'}, {'op': 'reapply', 'units': {'pos': pu, 'speed': su}}, copy.deepcopy(run)]
    try:
        b1 = B.build(sp)
        b1.raw_capture = False
        r1 = B.run_schedule(b1)
        t2 = B.extract(b1)
    except Exception as ex:
        ctx.violation('C16:stopped-run-raised', {'exception': type(ex).__name__ + ': ' + str(ex)[:200]}, case)
        return
    if not b1.captures or any(r['exc'] for r in r1) or any(r['exc'] for r in b1.captures[0][1]):
        ctx.violation('C16:stopped-run-raised', {'exception': [r['exc'] for r in r1] + [r['exc'] for r in (b1.captures[0][1] if b1.captures else [])]}, case)
        return
    t1 = b1.captures[0][0]
    ctx.count('cases')
    ctx.count('evaluations')
    ctx.count('condition_reused_after_reset_with_other_units')
    wit = {'stop': sp['stop'], 'first_true_index': k1, 'first_run_instants': t1.n, 'rerun_instants': t2.n, 'ic_units_first': [spec['ic']['pos']['u'], spec['ic']['speed']['u']],
           'ic_units_rerun': [pu, su], 'baseline_instants': t0.n}
    if t1.n != k1 + 1:
        ctx.violation('C16:wrong-stop-instant', wit, case)
        return
    # the rerun: same physics, so the same stop instant unless the decision at k1 is within rounding distance of the threshold
    near = any(x == 'N' for x in st[1:k1 + 1]) or abs(ser[k1] - GEN.qsi(thr)) <= 1e-6 * max(abs(ser[k1]), abs(GEN.qsi(thr))) or \
        abs(ser[k1 - 1] - GEN.qsi(thr)) <= 1e-6 * max(abs(ser[k1 - 1]), abs(GEN.qsi(thr)))
    if near:
        ctx.count('near_threshold')
        return
    if t2.n != t1.n:
        ctx.violation('C16:reused-condition-stops-at-another-instant-after-reset', wit, case)
        return
    for ei_, (ea, eb) in enumerate(zip(t1.els, t2.els)):
        for v in ea['vars']:
            sa_, sb_ = ea['vars'][v], eb['vars'].get(v, [])
            # scale of the variable: over the stopped run AND the full-length baseline of the same model (a run stopped after
            # one or two instants says little about the magnitude of its own variables)
            sc = max([abs(x) for x in list(sa_) + list(t0.els[ei_]['vars'].get(v, ())) if math.isfinite(x)] or [0.0])
            if 'torque' in v:
                sc = max([sc] + [abs(x) for v2 in ('torque', 'driving torque', 'load torque') for x in ea['vars'].get(v2, ()) if math.isfinite(x)])
            sq_ = v == 'contact stress'          # square root of the force: compared in the squares next to zero (appendix A24)
            if len(sb_) != len(sa_) or any(not (x == y or abs(x - y) <= 1e-9 * max(abs(x), abs(y)) + 1e-9 * sc or (x != x and y != y)
                                                or (sq_ and abs(x * x - y * y) <= 1e-9 * sc * sc)) for x, y in zip(sa_, sb_)):
                ctx.violation('C16:rerun-history-differs', dict(wit, element=ea['name'], variable=v), case)
                return
    ctx.count('early_stops')
    ctx.count('stops_' + op)


def one(ctx, i):
    rng = ctx.rng('case', i)
    case = {'kind': 'stopcase', 'index': i}
    prof = dict(p_continue=0.0, p_reset=0.0, n_lo=12, n_hi=70, p_currents=0.8, p_noload_start=0.0)
    spec = GEN.gen_scenario(rng, prof)
    if rng.random() < 0.3:
        GEN.add_const_rules(rng, spec)
    n = spec['_ref']['n']
    dt = spec['schedule'][0]['dt']
    if i % 11 == 4:
        # two timer rules whose windows overlap from the middle of the run on: the documented outcome is a ValueError at that
        # instant (nothing for this property to judge) -- NOT a run that returns normally before its duration is over
        dts_ = GEN.qsi(dt)
        k0_ = rng.randint(2, max(3, n // 2)) + 0.5
        spec['rules'] = [{'type': 'const', 'start': GEN.Q('Time', 0.0, 'sec'), 'dur': GEN.Q('TimeInterval', GEN.sig(3 * n * dts_, 12), 'sec'), 'value': 0.8},
                         {'type': 'const', 'start': GEN.Q('Time', GEN.sig(k0_ * dts_, 12), 'sec'), 'dur': GEN.Q('TimeInterval', GEN.sig(3 * n * dts_, 12), 'sec'), 'value': 0.5}]
        ctx.count('cases_with_rules_conflicting_in_mid_run')
    continued = i % 5 == 0
    if continued:
        n1 = rng.randint(3, n - 3)
        spec['schedule'] = [{'op': 'run', 'dt': dt, 'T': GEN.mulq(dt, n1), 'stop': False}, {'op': 'run', 'dt': dt, 'T': GEN.mulq(dt, n - n1)}]
        first_checked = n1 + 1
    else:
        first_checked = 1
    if rng.random() < 0.4:
        # the duration written in another time unit than the step (the same physical duration)
        for op_ in spec['schedule']:
            if op_['op'] == 'run':
                us_ = [u_ for u_ in GEN.time_units_for(GEN.qsi(op_['T'])) if u_ != op_['T']['u']]
                if us_:
                    op_['T'] = GEN.reexpress(op_['T'], rng.choice(us_))
        ctx.count('durations_in_another_unit_than_the_step')
    try:
        b0, r0, t0 = execute(spec)
    except Exception as ex:
        ctx.violation('harness:valid-scenario-rejected', {'exception': type(ex).__name__ + ': ' + str(ex)[:200]}, case)
        return
    if any(r['exc'] for r in r0):
        ctx.count('baseline_failed')
        return
    if t0.n != n + 1 and not any(o_['op'] in ('badrun',) for o_ in spec['schedule']) and abs(t0.n - (n + 1)) > 0 and not spec['schedule'][0].get('T_via'):
        # without a stop condition the run covers the whole duration: a shorter history "ended before the full duration" with
        # nothing true at its last instant (also C11's business; here because everything below is relative to this baseline)
        exp_n = sum(round(GEN.qsi(o_['T']) / GEN.qsi(o_['dt'])) for o_ in spec['schedule'] if o_['op'] == 'run') + 1
        if t0.n != exp_n:
            ctx.violation('C16:run-without-stop-condition-ended-early', {'recorded_instants': t0.n, 'expected': exp_n,
                                                                         'schedule': [(o_['dt'], o_['T']) for o_ in spec['schedule'] if o_['op'] == 'run']}, case)
            return
    # sensor, operator, placement
    sensors = ['enc', 'tach'] + (['amp'] if spec['motor']['i0'] is not None else [])
    sk = sensors[i % len(sensors)]
    idx = 0 if sk == 'amp' else rng.randrange(len(spec['chain']) + 1)
    op = ['gt', 'ge', 'eq', 'lt', 'le'][(i // 3) % 5]
    ser = t0.els[idx]['vars'][VAR[sk]]
    raw = t0.els[idx]['units'][VAR[sk]]
    N = t0.n
    if any(not math.isfinite(x) for x in ser):
        ctx.count('overflowed_baselines')
        return
    lo, hi = min(ser), max(ser)
    span = (hi - lo) or max(abs(hi), 1e-6)
    placement = ['inside', 'exact', 'ulp', 'before', 'beyond', 'inside'][(i // 15) % 6] if op != 'eq' else ['exact', 'exact', 'ulp', 'beyond'][(i // 15) % 4]
    ku = rng.choice(SI.units(KIND[sk]))
    if placement == 'inside':
        thr_si = lo + rng.uniform(0.05, 0.95) * span
        thr = GEN.Q(KIND[sk], thr_si / SI.FACT[KIND[sk]][ku], ku)
        if rng.random() < 0.35:
            # a threshold typed as a python int (90 deg, 1500 rpm): in a unit fine enough for the rounding to stay inside the range
            for ku_ in sorted(SI.units(KIND[sk]), key=lambda u_: rng.random()):
                vi = thr_si / SI.FACT[KIND[sk]][ku_]
                if abs(vi) >= 3 and abs(round(vi) - vi) * SI.FACT[KIND[sk]][ku_] < 0.02 * span and abs(vi) < 1e15:
                    thr = GEN.Q(KIND[sk], int(round(vi)), ku_)
                    ctx.count('int_valued_thresholds')
                    break
    elif placement in ('exact', 'ulp'):
        k = rng.randint(max(first_checked, 2), N - 1) if N - 1 >= max(first_checked, 2) else N - 1
        v, u = raw[k]
        if placement == 'ulp':
            v = math.nextafter(v, math.inf if rng.random() < 0.5 else -math.inf)
        thr = GEN.Q(KIND[sk], v, u)
        if rng.random() < 0.3 and placement == 'exact' and op != 'eq':
            thr = GEN.reexpress(thr, ku)
    elif placement == 'before':
        # already true at the first checked instant
        v1 = ser[first_checked]
        thr_si = v1 - 0.1 * span - abs(v1) * 1e-3 if op in ('gt', 'ge') else v1 + 0.1 * span + abs(v1) * 1e-3
        thr = GEN.Q(KIND[sk], thr_si / SI.FACT[KIND[sk]][ku], ku)
    else:
        thr_si = hi + 0.5 * span + 1 if op in ('gt', 'ge', 'eq') else lo - 0.5 * span - 1
        thr = GEN.Q(KIND[sk], thr_si / SI.FACT[KIND[sk]][ku], ku)
    # reference truth per instant on the baseline series
    thr_si = GEN.qsi(thr)
    state = []          # 'T', 'F', 'N' (near)
    for k in range(N):
        v, u = raw[k]
        vs = ser[k]
        if u == thr['u']:
            state.append('T' if PY[op](v, thr['v']) else 'F')          # same unit: exact comparison of the raw values
            continue
        thr_in_u = SI.convert(KIND[sk], thr['v'], thr['u'], u)
        m = abs(vs - thr_si) / max(abs(vs), abs(thr_si), 1e-300)
        if m <= 1e-9 or abs(v - thr_in_u) <= 2e-12:
            state.append('N')
        else:
            state.append('T' if PY[op](vs, thr_si) else 'F')
    acceptable = []
    kstar = None
    for k in range(first_checked, N):
        if state[k] == 'N':
            acceptable.append(k)
            ctx.count('near_threshold')
        elif state[k] == 'T':
            kstar = k
            acceptable.append(k)
            break
    if kstar is None:
        acceptable.append(N - 1)
    sp = copy.deepcopy(spec)
    sp['stop'] = {'sensor': sk, 'elem': idx, 'op': op, 'thr': thr}
    try:
        b1, r1, t1 = execute(sp)
    except Exception as ex:
        ctx.violation('C16:stopped-run-raised', {'exception': type(ex).__name__ + ': ' + str(ex)[:200], 'stop': sp['stop']}, case)
        return
    ex1 = [r['exc'] for r in r1 if r['exc']]
    if ex1:
        ctx.violation('C16:stopped-run-raised', {'exception': ex1, 'stop': sp['stop']}, case)
        return
    ctx.count('threshold_objects_inspected_after_the_run', len(getattr(b1, 'thresholds', [])))
    if getattr(b1, 'modified_thresholds', None):
        # "the sensor reading compared with the threshold": the threshold is the quantity the user wrote, before and after
        ctx.violation('C16:threshold-object-modified-by-the-run', {'stop': sp['stop'], 'thresholds': b1.modified_thresholds[:2]}, case)
        return
    ctx.count('cases')
    ctx.count('evaluations')
    if continued:
        ctx.count('continued_cases')
    ctx.seen('sensor_op_placement', f'{sk}|{op}|{placement}')
    wit = {'stop': sp['stop'], 'placement': placement, 'baseline_instants': N, 'stopped_instants': t1.n, 'first_true_index': kstar, 'acceptable_last_indices': acceptable[:6],
           'first_checked': first_checked, 'sensed_series_around': ser[max(0, (kstar or 1) - 2):(kstar or 1) + 2], 'threshold_si': thr_si, 'continued': continued}
    if (t1.n - 1) not in acceptable:
        ctx.violation('C16:wrong-stop-instant', wit, case)
        return
    # prefix, bit exact
    if t1.time != t0.time[:t1.n]:
        ctx.violation('C16:axis-not-prefix', wit, case)
        return
    for ea, eb in zip(t0.els, t1.els):
        for v in ea['vars']:
            if eb['units'].get(v) != ea['units'][v][:t1.n]:
                if any(x != y and not (x[0] != x[0] and y[0] != y[0]) for x, y in zip(eb['units'].get(v, []), ea['units'][v][:t1.n])) or len(eb['units'].get(v, [])) != t1.n:
                    ctx.violation('C16:history-not-prefix-of-baseline', dict(wit, element=ea['name'], variable=v, length=len(eb['units'].get(v, []))), case)
                    return
    ctx.count('prefix_instants_compared', t1.n)
    # what the solver compared at call j is the sample recorded at that instant
    for (nt, kind, v, u) in b1.probe_log:
        ctx.count('sensor_reads_checked')
        rec = t1.els[idx]['units'][VAR[sk]][nt - 1] if nt - 1 < t1.n else None
        if rec is None or rec != (v, u):
            if not (rec and rec[0] != rec[0]):
                ctx.violation('C16:sensor-read-not-the-recorded-sample', dict(wit, call_at_instants=nt, read=[v, u], recorded=rec), case)
                return
    # every computed instant must have been checked (how many times is not part of the statement)
    checked = {nt - 1 for (nt, _, _, _) in b1.probe_log}
    missing = [k for k in range(first_checked, t1.n) if k not in checked]
    if missing:
        ctx.violation('C16:computed-instant-never-checked', dict(wit, unchecked_instants=missing[:5], computed_instants=t1.n - first_checked), case)
        return
    if t1.n < N:
        ctx.count('early_stops')
        ctx.count('stops_' + op)
        if first_checked < t1.n - 1 < N - 1:
            ctx.seen('nontrivial', f'{sk}|{op}|{placement}|{SC.topo_signature(spec)}')
    else:
        ctx.count('full_length_runs')
    if len(ctx.samples) < 3 and t1.n < N:
        ctx.sample({'sensor': sk, 'element': t0.els[idx]['name'], 'operator': op, 'threshold': thr, 'placement': placement, 'baseline_instants': N,
                    'stopped_instants': t1.n, 'first_true_index': kstar, 'value_at_stop_si': ser[t1.n - 1], 'value_before_si': ser[t1.n - 2]})


def foreign_sensor(ctx, i):
    """the sensor of the stop condition watches an element of ANOTHER model (a test rig whose shaft is read while this model
    runs): the rule is the same -- the run ends at the first computed instant at which reading <op> threshold is true"""
    rng = ctx.rng('foreign', i)
    case = {'kind': 'foreign', 'index': i}
    spec = GEN.gen_scenario(rng, dict(p_continue=0.0, p_reset=0.0, n_lo=8, n_hi=30, p_selflock=0.0, p_noload_start=0.0))
    other = GEN.gen_scenario(rng, dict(_nested=True, p_continue=0.0, p_reset=0.0, n_lo=4, n_hi=8, max_stages=2))
    n = spec['_ref']['n']
    try:
        b = B.build(spec, hooks=False)
        rig = B.build(other, hooks=False)
        un, ut, se = B.g().un, B.g().ut, B.g().se
        rig.last.angular_speed = un.AngularSpeed(5, 'rad/s')
        true_now = rng.random() < 0.6
        thr = un.AngularSpeed(30, 'rpm') if true_now else un.AngularSpeed(300, 'rpm')          # 5 rad/s = 47.7 rpm
        cond = ut.StopCondition(sensor=se.Tachometer(target=rig.last), threshold=thr, operator=ut.StopCondition.greater_than)
        dt, T = B.mkq(spec['schedule'][0]['dt']), B.mkq(spec['schedule'][0]['T'])
        b.solver.run(time_discretization=dt, simulation_time=T, stop_condition=cond)
    except Exception as ex:
        ctx.violation('C16:run-with-a-foreign-sensor-raised', {'exception': type(ex).__name__ + ': ' + str(ex)[:200]}, case)
        return
    ctx.count('cases')
    ctx.count('evaluations')
    ctx.count('stop_conditions_on_a_foreign_element')
    got, want = len(b.pt.time), (2 if true_now else n + 1)
    if got != want:
        ctx.violation('C16:wrong-stop-instant', {'sensor': 'tachometer on an element of another model, reading 5 rad/s', 'threshold': [thr.value, thr.unit], 'operator': 'gt',
                                                 'recorded_instants': got, 'expected': want}, case)


def shard(ctx):
    for i in ctx.my_cases(48 if ctx.tier == 'quick' else 600):
        foreign_sensor(ctx, i)
    for i in ctx.my_cases(n_cases(ctx.tier)):
        one(ctx, i)
    for i in ctx.my_cases(n_cases(ctx.tier) // 4):
        two_stage(ctx, i)
    for i in ctx.my_cases(n_cases(ctx.tier) // 5):
        reset_reuse(ctx, i)


def replay(ctx, case):
    {'twostage': two_stage, 'resetreuse': reset_reuse, 'foreign': foreign_sensor}.get(case.get('kind'), one)(ctx, case['index'])
