"""Scenario generator: pure data (JSON-serialisable), random.Random only, no gearpy import.

Quantities are {'k': kind, 'v': value, 'u': unit} in a *home unit* in which the value is a short
decimal (so re-expression in another unit is the harness's choice, never an accident).
"""
import math
from ..ref import si as SI
from ..ref import relations as REL

PA_MAX = {14.5: 16.0, 20.0: 25.0, 25.0: 35.0, 30.0: 45.0}


def Q(kind, v, u):
    return {'k': kind, 'v': v, 'u': u}


def qsi(q):
    return q['v'] * SI.FACT[q['k']][q['u']]


def sig(x, n=4):
    """x rounded to n significant decimal digits (a short decimal literal)."""
    if x == 0 or not math.isfinite(x):
        return x
    return float(f'{x:.{n - 1}e}')


def pick_unit(rng, kind, home_bias=None):
    return rng.choice(SI.units(kind))


def rq(rng, kind, si_lo, si_hi, unit=None, log=True, n=4, sign=1):
    """random quantity with SI magnitude in [si_lo, si_hi], expressed in `unit` with a short decimal value"""
    unit = unit or rng.choice(SI.units(kind))
    x = math.exp(rng.uniform(math.log(si_lo), math.log(si_hi))) if log else rng.uniform(si_lo, si_hi)
    v = sig(sign * x / SI.FACT[kind][unit], n)
    if float(v).is_integer() and abs(v) < 1e15 and rng.random() < 0.5:
        v = int(v)                     # quantities may be given as python ints
    return Q(kind, v, unit)


DEFAULT_PROFILE = dict(
    max_stages=3, p_currents=0.7, p_selflock=0.25, p_worm=0.3, p_wheel_master=0.08, p_struct=0.5,
    p_control=0.35, p_stop=0.0, n_lo=6, n_hi=60, p_overload=0.25, p_big_overload=0.08,
    p_continue=0.35, p_reset=0.15, p_ic_zero=0.3, p_pwm_preset=0.2, unit_mode='random', p_idler=0.15,
    p_speed_load=0.6, p_pos_load=0.4, p_time_load=0.5, kdt_lo=0.002, kdt_hi=0.4, stop_ok=True,
)


def _names():
    n = [0]

    def nm(p):
        n[0] += 1
        return f'{p}{n[0]}'
    return nm


def gen_motor(rng, prof):
    cur = rng.random() < prof['p_currents']
    m = {'type': 'motor', 'name': 'motor',
         'J': rq(rng, 'InertiaMoment', 1e-7, 1e-5),
         'w0': rq(rng, 'AngularSpeed', 50, 1500),
         'Tmax': rq(rng, 'Torque', 2e-3, 0.5),
         'i0': None, 'imax': None}
    if cur:
        imax = rq(rng, 'Current', 0.5, 10)
        frac = rng.choice([0.0, 0.02, 0.1, 0.3, 0.6]) if rng.random() < 0.3 else rng.uniform(0.01, 0.4)
        i0 = Q('Current', sig(qsi(imax) * frac / SI.FACT['Current'][imax['u']], 3), imax['u'])
        if rng.random() < 0.5:
            u = rng.choice(SI.units('Current'))
            i0 = Q('Current', sig(qsi(i0) / SI.FACT['Current'][u], 3), u)
        if qsi(i0) >= qsi(imax):
            i0 = Q('Current', 0.0, imax['u'])
        m['i0'], m['imax'] = i0, imax
    return m


def _struct(rng, prof, helical=False):
    """optional structural data shared by the mates of one mating (module must agree)"""
    if rng.random() >= prof['p_struct']:
        return {}
    d = {'module': rq(rng, 'Length', 3e-4, 5e-3, n=2)}
    if rng.random() < 0.8:
        d['face_width'] = True
    if rng.random() < 0.7:
        d['E'] = True
    return d


def gen_chain(rng, prof, force_selflock=None):
    nm = _names()
    chain = []
    n_st = rng.randint(1, prof['max_stages'])
    want_lock = (rng.random() < prof['p_selflock']) if force_selflock is None else force_selflock
    lock_stage = rng.randrange(n_st) if want_lock else -1
    for s in range(n_st):
        r = rng.random()
        if s == lock_stage:
            kind = 'worm'
        elif r < prof['p_worm']:
            kind = 'worm' if rng.random() > prof['p_wheel_master'] / max(prof['p_worm'], 1e-9) else 'wheelmaster'
        elif r < prof['p_worm'] + 0.15:
            kind = 'fly'
        elif r < prof['p_worm'] + 0.25:
            kind = 'plain'
        else:
            kind = rng.choice(['spur', 'helical'])
        if force_selflock is False and kind == 'worm':
            pass
        if kind == 'fly':
            chain.append({'type': 'fly', 'name': nm('fly'), 'J': rq(rng, 'InertiaMoment', 1e-7, 1e-4), 'rel': {'type': 'joint'}})
        elif kind == 'plain':
            chain.append({'type': 'spur', 'name': nm('g'), 'z': rng.randint(10, 80), 'J': rq(rng, 'InertiaMoment', 1e-7, 1e-4), 'rel': {'type': 'joint'}})
        elif kind in ('spur', 'helical'):
            st = _struct(rng, prof)
            n_g = 3 if rng.random() < prof['p_idler'] else 2
            hel = rq(rng, 'Angle', math.radians(1), math.radians(45), unit='deg', log=False, n=3) if kind == 'helical' else None
            if hel is not None and rng.random() < 0.1:
                hel = Q('Angle', 0.0, 'deg')
            for j in range(n_g):
                g = {'type': kind, 'name': nm('g'), 'z': rng.randint(10, 40) if j == 0 else (chain[-1]['z'] if rng.random() < 0.06 else rng.randint(10, 90)),          # sometimes equal teeth numbers: a ratio of exactly 1
                     'J': rq(rng, 'InertiaMoment', 1e-7, 3e-4)}
                if hel is not None:
                    g['helix'] = dict(hel)
                if 'module' in st:
                    g['module'] = dict(st['module'])
                    if st.get('face_width'):
                        g['face_width'] = rq(rng, 'Length', 2e-3, 2e-2, n=3)
                    if st.get('E'):
                        g['E'] = rq(rng, 'Stress', 5e8, 2.5e11, n=3)
                g['rel'] = {'type': 'joint'} if j == 0 else {'type': 'gear', 'eff': rng.choice([1, 1.0, 0.05, 0.5]) if rng.random() < 0.2 else sig(rng.uniform(0.3, 1.0), 3)}
                chain.append(g)
        else:
            pa = rng.choice([14.5, 20.0, 25.0, 30.0])
            hx = sig(rng.uniform(2.0, PA_MAX[pa] - 0.5), 3)
            crit = math.cos(math.radians(pa)) * math.tan(math.radians(hx))
            if kind == 'wheelmaster':
                f = sig(rng.uniform(0, 0.9 * crit), 3)
            elif s == lock_stage:
                f = sig(min(1.0, rng.uniform(crit * 1.05, crit * 3 + 0.05)), 3)
                if f <= crit:          # cannot self-lock within [0,1] for this geometry
                    hx = sig(rng.uniform(2.0, 10.0), 3)
                    crit = math.cos(math.radians(pa)) * math.tan(math.radians(hx))
                    f = sig(rng.uniform(crit * 1.05, min(1.0, crit * 3 + 0.05)), 3)
            else:
                f = sig(rng.uniform(0, 0.95 * crit), 3) if (force_selflock is False or rng.random() < 0.8) else sig(rng.uniform(0, min(1.0, 2 * crit)), 3)
                if rng.random() < 0.05:
                    f = rng.choice([0, 0.0])          # a frictionless worm mating (documented range [0, 1])
            hx_wheel = hx
            if s == lock_stage and rng.random() < 0.25 and PA_MAX[pa] >= 12:
                # a self-locking mating in which the WHEEL drives the worm: the flag follows the worm's own (smaller) helix angle,
                # the efficiency the driving wheel's (larger) one: cos(a) tan(b_worm) < f < cos(a) tan(b_wheel)
                kind = 'wheelmaster'
                hx_wheel = sig(rng.uniform(10.0, PA_MAX[pa] - 0.5), 3)
                hx = sig(rng.uniform(2.0, 0.5 * hx_wheel), 3)
                c_worm, c_wheel = (math.cos(math.radians(pa)) * math.tan(math.radians(x_)) for x_ in (hx, hx_wheel))
                f = sig(rng.uniform(c_worm * 1.1, c_wheel * 0.85), 3)
            wg = {'type': 'wormgear', 'name': nm('wg'), 'n_starts': rng.randint(1, 4), 'J': rq(rng, 'InertiaMoment', 1e-7, 1e-5),
                  'helix': Q('Angle', hx, 'deg'), 'pa': Q('Angle', pa, 'deg')}
            ww = {'type': 'wormwheel', 'name': nm('ww'), 'z': rng.randint(10, 60), 'J': rq(rng, 'InertiaMoment', 1e-6, 1e-3),
                  'helix': Q('Angle', hx_wheel, 'deg'), 'pa': Q('Angle', pa, 'deg')}
            if rng.random() < prof['p_struct']:
                if rng.random() < 0.8:
                    wg['d'] = rq(rng, 'Length', 4e-3, 3e-2, n=3)
                if rng.random() < 0.85:
                    ww['module'] = rq(rng, 'Length', 3e-4, 5e-3, n=2)
                    if rng.random() < 0.8:
                        ww['face_width'] = rq(rng, 'Length', 2e-3, 2e-2, n=3)
            if kind == 'worm':
                wg['rel'] = {'type': 'joint'}
                ww['rel'] = {'type': 'worm', 'f': f}
                chain += [wg, ww]
            else:
                ww['rel'] = {'type': 'joint'}
                wg['rel'] = {'type': 'worm', 'f': f}
                chain += [ww, wg]
    if chain[-1]['type'] not in ('spur', 'helical', 'wormwheel'):
        chain.append({'type': 'spur', 'name': 'end', 'z': rng.randint(10, 60), 'J': rq(rng, 'InertiaMoment', 1e-7, 1e-4), 'rel': {'type': 'joint'}})
    return chain


def chain_numbers(spec):
    """reference numbers of a chain: ratios, efficiencies, J_eq at the output, G, E, self-locking"""
    rs, es, lock = [], [], False
    near = False
    prev = spec['motor']
    for e in spec['chain']:
        r, eta, sl = REL.relation_values(prev, e)
        rs.append(r)
        es.append(eta)
        lock = lock or sl
        if e['rel']['type'] == 'worm':
            wg = prev if prev['type'] == 'wormgear' else e
            m, _ = REL.self_locking_margin(qsi(wg['pa']), qsi(wg['helix']), e['rel']['f'])
            near = near or (abs(m) <= 1e-12 and not e['rel'].get('f_is_threshold'))
        prev = e
    J = qsi(spec['motor']['J'])
    for e, r in zip(spec['chain'], rs):
        J = J * r + qsi(e['J'])
    G = math.prod(rs)
    E = math.prod(r * eta for r, eta in zip(rs, es))
    return {'r': rs, 'eta': es, 'J_eq': J, 'G': G, 'E': E, 'self_locking': lock, 'self_locking_near_threshold': near}


def gen_scenario(rng, prof=None, force_selflock=None):
    p = dict(DEFAULT_PROFILE)
    p.update(prof or {})
    spec = {'motor': gen_motor(rng, p)}
    all_int_J = rng.random() < p.get('p_int_inertias', 0.08)
    for _ in range(20):
        spec['chain'] = gen_chain(rng, p, force_selflock)
        if p.get('heavy_output'):
            spec['chain'][-1]['J'] = Q('InertiaMoment', spec['chain'][-1]['J']['v'] * p['heavy_output'], spec['chain'][-1]['J']['u'])
        if all_int_J:
            # every inertia written as a python int in one small unit (a parts list in g*cm^2)
            ju = rng.choice(['gcm^2', 'gcm^2', 'gm^2', 'kgcm^2'])
            for e_ in [spec['motor']] + spec['chain']:
                e_['J'] = Q('InertiaMoment', max(1, int(round(qsi(e_['J']) / SI.FACT['InertiaMoment'][ju]))), ju)
        nums = chain_numbers(spec)
        if nums['E'] > 1e-9 and 1e-12 < nums['J_eq'] < 1e6:
            break
    Tmax, w0 = qsi(spec['motor']['Tmax']), qsi(spec['motor']['w0'])
    T_out = Tmax * nums['E']                       # stall torque seen at the output
    k = T_out * nums['G'] / (w0 * nums['J_eq'])    # rate constant of the linear model at D=1
    kdt = math.exp(rng.uniform(math.log(p['kdt_lo']), math.log(p['kdt_hi'])))
    dt_si = kdt / k
    # time values are compared by the library with an absolute tolerance of 1e-12 in their unit (defect D9, recorded under
    # C05): keep every time quantity >= 1e-6 in the unit it is written in, so that this property's decisions are not D9's
    tu = rng.choice([u for u in SI.units('TimeInterval') if dt_si / SI.FACT['Time'][u] >= 1e-6] or ['ms'])
    dtv = sig(dt_si / SI.FACT['Time'][tu], 2)
    if dtv <= 0:
        dtv = 10 ** math.floor(math.log10(dt_si / SI.FACT['Time'][tu]))
    dt = Q('TimeInterval', dtv, tu)
    dt_si = qsi(dt)
    n = rng.randint(p['n_lo'], p['n_hi'])
    # load
    r = rng.random()
    if r < p['p_big_overload']:
        A = rng.uniform(5, 100) * T_out * rng.choice([-1, 1])
    elif r < p['p_big_overload'] + p['p_overload']:
        A = rng.uniform(1, 3) * T_out * rng.choice([-1, 1])
    else:
        A = rng.uniform(-1, 1) * T_out
    if rng.random() < 0.05:
        A = 0.0
    load = {'A': sig(A, 4), 'B': 0.0, 'C': 0.0, 'S': 0.0, 'W': 0.0, 'step_t': None, 'step_A': 0.0, 'unit': rng.choice(SI.units('Torque'))}
    w_out = w0 / nums['G']
    if rng.random() < p['p_speed_load']:
        load['B'] = sig(rng.uniform(-0.3, 0.6) * T_out / max(w_out, 1e-12), 3)
    if rng.random() < p['p_pos_load']:
        load['C'] = sig(rng.uniform(-1, 1) * 0.02 * nums['J_eq'] / dt_si ** 2, 3)
    if rng.random() < p['p_time_load']:
        load['S'] = sig(rng.uniform(0.05, 0.8) * T_out, 3)
        load['W'] = sig(2 * math.pi / (dt_si * rng.uniform(5, 40)), 4)
    if rng.random() < p.get('p_cam_load', 0.15):
        load['fp'] = rng.choice([1 / (4 * math.pi), 0.1, 0.37, 1 / (2 * math.pi), 1.5])
        # amplitude limited like the spring term C: the stiffness P*2*pi*fp stays below 0.02 J_eq / dt^2 (gentle dynamics, no
        # amplification of rounding differences between two writings of the same scenario)
        load['P'] = sig(min(rng.uniform(0.05, 0.4) * T_out, 0.02 * nums['J_eq'] / dt_si ** 2 / (2 * math.pi * load['fp'])), 3)
        if load['P'] < 0.02 * T_out:
            # a cam term that small would make the whole load a rounding-sensitive quantity (sine of a large angle): left out
            load.pop('P'), load.pop('fp')
        if 'P' in load:
            load['lib_trig'] = rng.random() < 0.75
    if rng.random() < 0.25:
        load['step_t'] = dt_si * (rng.randint(1, max(1, n - 1)) + 0.5)       # half-way between two instants: never a rounding matter
        load['step_A'] = sig(rng.uniform(-2, 2) * T_out, 3)
    if rng.random() < p.get('p_load_units_cycle', 0.3):
        load['units_cycle'] = rng.sample(SI.units('Torque'), rng.randint(2, 3))
    spec['load'] = load
    # initial conditions
    if rng.random() < p['p_ic_zero']:
        pos, spd = Q('AngularPosition', 0.0, rng.choice(SI.units('AngularPosition'))), Q('AngularSpeed', 0.0, rng.choice(SI.units('AngularSpeed')))
    else:
        pos = rq(rng, 'AngularPosition', 1e-3, 50, sign=rng.choice([-1, 1]))
        spd = rq(rng, 'AngularSpeed', 1e-3 * w_out, 1.5 * w_out, sign=rng.choice([-1, 1]))
        if rng.random() < 0.3:
            spd = Q('AngularSpeed', 0.0, spd['u'])
        elif rng.random() < p.get('p_noload_start', 0.07):
            # the output starts exactly at the speed at which the motor runs at its no-load speed (zero driving torque at D = 1)
            m_ = spec['motor']
            spd = Q('AngularSpeed', m_['w0']['v'] / nums['G'], m_['w0']['u'])
    angle_pos = None
    if rng.random() < p.get('p_angle_pos', 0.12) and qsi(spd) >= 0 and not any(load.get(k_) for k_ in ('C', 'P')):
        # the initial position is an Angle object converted in place beforehand (sim/build.py apply_ic). Angle + AngularPosition
        # refuses a negative sum (D10-angle, judged by C06 only), so the start is far enough from zero for any first step
        pos = Q('AngularPosition', sig(max(qsi(pos), 400 * w_out * dt_si, 1e-3), 3), 'rad')
        pos = reexpress(pos, rng.choice(SI.units('Angle')))
        angle_pos = rng.choice(SI.units('Angle'))
    pwm = None
    if rng.random() < p['p_pwm_preset']:
        pwm = rng.choice([1, 0, -1, 0.5, -0.3, sig(rng.uniform(-1, 1), 3)])
    spec['ic'] = {'pos': pos, 'speed': spd, 'pwm': pwm, 'numpy': rng.random() < p.get('p_numpy', 0.12), 'angle_pos': angle_pos}
    if rng.random() < p.get('p_numpy', 0.12):
        load['numpy'] = True
    if rng.random() < p.get('p_reentrant', 0.08):
        load['reentrant'] = rng.choice([True, 'inplace-time'])          # the load function uses the public API on its arguments and reads sensors (sim/build.py)
    spec['rules'] = []
    spec['stop'] = None
    spec['prior_design'] = rng.randrange(1 << 30) if rng.random() < 0.3 else None     # relations declared differently first (sim/build.py prior_design)
    spec['deepcopy'] = rng.random() < p.get('p_deepcopy', 0.1)          # the assembled powertrain is deep-copied and the copy is used
    if rng.random() < p.get('p_subclass', 0.1):
        for e_ in [spec['motor']] + spec['chain']:
            if rng.random() < 0.6:
                e_['subclass'] = True                                  # a trivial user subclass of the element class
    if rng.random() < 0.2:
        for e_ in spec['chain']:
            if e_['type'] in ('spur', 'helical') and rng.random() < 0.6:
                e_['positional'] = True                                # constructor arguments passed positionally in the documented order
    if rng.random() < 0.15:
        for e_ in [spec['motor']] + spec['chain']:
            e_['explicit_none'] = True                                 # absent optional data passed explicitly as None
    spec['failed_attempts'] = rng.randrange(1 << 30) if rng.random() < 0.25 else None     # rejected declarations after the design (sim/build.py)
    spec['touch_constants'] = rng.randrange(1 << 30) if rng.random() < p.get('p_touch_constants', 0.15) else None   # constants converted in place after assembly (sim/build.py)
    spec['declare_order'] = rng.choice([None, None, 'backward', rng.randrange(1 << 30)])        # order in which the relations of the chain are declared
    spec['order'] = rng.randrange(24)          # which of the legal orders of public calls the driver uses (see sim/build.py)
    sched = [{'op': 'run', 'dt': dt, 'T': mulq(dt, n)}]
    if rng.random() < p.get('p_nonmultiple_T', 0.0):
        # a duration that is not a whole multiple of the step (legal; the grid properties C11/C12 do not use it)
        from decimal import Decimal
        sched[0]['T'] = Q(dt['k'], float(Decimal(repr(dt['v'])) * n + Decimal(repr(dt['v'])) * Decimal(rng.choice(['0.5', '0.25', '0.7']))), dt['u'])
    if rng.random() < p['p_continue']:
        u2 = rng.choice(time_units_for(dt_si))
        same = rng.random() < 0.5
        dt2 = reexpress(dt, u2) if same else Q('TimeInterval', sig(dt_si * rng.choice([0.5, 2, 0.25, 1]) / SI.FACT['Time'][u2], 2), u2)
        smaller = {'sec': 'ms', 'min': 'sec', 'hour': 'min'}.get(dt['u'])
        if smaller is not None and rng.random() < p.get('p_same_number_step', 0.15):
            # the continuation step has the same NUMBER as the first one, in the next smaller unit (a finer step: the dynamics stay gentle)
            dt2 = Q('TimeInterval', dt['v'], smaller)
        if dt2['v'] > 0:
            sched.append({'op': 'run', 'dt': dt2, 'T': mulq(dt2, rng.randint(3, max(4, n // 2)))})
    if rng.random() < p['p_reset']:
        sched += [{'op': 'newpowertrain' if rng.random() < p.get('p_newpowertrain', 0.35) else 'reset'}, {'op': 'reapply'}]
        if rng.random() < p.get('p_setload', 0.4):
            # another load function for the second history (same solver or a new one)
            l2 = dict(load)
            l2['A'] = sig(load['A'] * rng.choice([-1, 0.3, 2.5]) + rng.choice([0, 0.2]) * T_out, 4)
            l2['unit'] = rng.choice(SI.units('Torque'))
            sched.append({'op': 'setload', 'load': l2})
        if rng.random() < 0.5:
            sched.append({'op': 'newsolver'})
        sched.append({'op': 'run', 'dt': dt, 'T': mulq(dt, rng.randint(3, n))})
    if len([o_ for o_ in sched if o_['op'] == 'run']) >= 2 and rng.random() < p.get('p_remount', 0.2):
        # between two runs the driven part is also mounted on a second motor (sim/build.py 'remount')
        idx_ = [k_ for k_, o_ in enumerate(sched) if o_['op'] == 'run'][1]
        sched.insert(idx_, {'op': rng.choice(['remount', 'twin'])})
    if len([o_ for o_ in sched if o_['op'] == 'run']) >= 2 and rng.random() < p.get('p_swapsolver', 0.35):
        # the continuation is issued through ANOTHER Solver object (a new one, or -- when there are several runs -- the two used
        # alternately)
        for k_ in [k_ for k_, o_ in enumerate(sched) if o_['op'] == 'run'][:0:-1]:
            if sched[k_ - 1]['op'] not in ('reapply', 'reset', 'newpowertrain', 'newsolver', 'setload'):
                sched.insert(k_, {'op': 'swapsolver'})
    if len([o_ for o_ in sched if o_['op'] == 'run']) >= 2 and rng.random() < p.get('p_report', 0.3):
        idx_ = [k_ for k_, o_ in enumerate(sched) if o_['op'] == 'run'][1]
        if sched[idx_ - 1]['op'] not in ('reapply', 'reset', 'newpowertrain', 'newsolver', 'setload'):
            sched.insert(idx_, {'op': 'report', 'seed': rng.randrange(1 << 30)})       # live state reported in other units (sim/build.py)
    if rng.random() < p.get('p_badrun', 0.12):
        # calls of Solver.run rejected at the argument checks, anywhere in the schedule
        for _ in range(rng.randint(1, 2)):
            how = rng.choice(['types', 'dt_ge_T', 'dt_ge_T', 'control_type', 'stop_type'])
            sched.insert(rng.randrange(1, len(sched) + 1), {'op': 'badrun', 'how': how, 'equal': rng.random() < 0.5})
    if rng.random() < p.get('p_forget_load', 0.05):
        # the load function is forgotten at first: the first call is rejected ("no external torque"), then the load is assigned
        spec['forget_load'] = True          # handled by sim/build.py right after the solver exists
    if not p.get('_nested') and rng.random() < p.get('p_bystander', 0.08):
        # another independent model is advanced between this model's operations (sim/build.py 'bystander')
        other = gen_scenario(rng, dict(prof or {}, _nested=True, p_continue=1.0, n_lo=4, n_hi=12), None)
        other.pop('_ref', None)
        k_ = 1
        while k_ <= len(sched):
            sched.insert(k_, {'op': 'bystander', 'spec': other})
            k_ += 2
    if rng.random() < p.get('p_inplace_args', 0.15):
        # the step / duration objects handed to run() went through an in-place conversion first (objects with a history)
        for op_ in sched:
            if op_['op'] == 'run':
                op_['T_via'] = rng.choice(time_units_for(dt_si))
                op_['dt_via'] = rng.choice(time_units_for(dt_si))
    spec['schedule'] = sched
    spec['_ref'] = {'k': k, 'T_out': T_out, 'w_out': w_out, 'dt_si': dt_si, 'n': n}
    return spec


def time_units_for(dt_si, floor=1e-6):
    """time units in which a step of dt_si seconds is written with a value >= floor (see gen_scenario)"""
    return [u for u in SI.units('TimeInterval') if dt_si / SI.FACT['Time'][u] >= floor] or ['ms']


def mulq(q, n):
    """n*q as a short decimal in the same unit (decimal arithmetic, not float multiplication)"""
    from decimal import Decimal
    return Q(q['k'], float(Decimal(repr(q['v'])) * n), q['u'])


def reexpress(q, unit):
    """same physical magnitude in another unit, computed with the harness's own table"""
    if unit == q['u']:
        return dict(q)
    return Q(q['k'], SI.convert(q['k'], q['v'], q['u'], unit), unit)


def add_const_rules(rng, spec, n_rules=None, allow_overlap=False):
    """ConstantPWM windows over the first run's horizon (times as multiples of dt)"""
    ref = spec['_ref']
    dt0 = spec['schedule'][0]['dt']
    n = ref['n']
    t = rng.randint(0, max(1, n // 4))
    k = n_rules if n_rules is not None else rng.randint(1, 4)
    for _ in range(k):
        d = rng.randint(1, max(2, n // 3))
        v = rng.choice([-1, -0.5, 0, 0, 0.5, 1, sig(rng.uniform(-1, 1), 2)])
        ok_u = time_units_for(qsi(dt0))
        tu = rng.choice(ok_u)
        spec['rules'].append({'type': 'const', 'start': reexpress(Q('Time', mulq(dt0, t)['v'], dt0['u']), tu) if t else Q('Time', 0.0, tu),
                              'dur': reexpress(mulq(dt0, d), rng.choice(ok_u)), 'value': v,
                              '_k0': t, '_k1': t + d})
        t += d + (rng.randint(1, 4) if not allow_overlap else rng.randint(-d, 3))
        t = max(t, 0)
    return spec
