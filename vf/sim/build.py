"""Turn a scenario (pure data) into real gearpy objects, execute its schedule, extract a Trace.

Observation happens through public extension points only: the external_torque callback, RuleBase
proxies added through PWMControl.add_rule, a SensorBase subclass used as StopCondition sensor.
"""
import math
from ..ref import si as SI


def G():
    """late import of the library under test"""
    import gearpy.mechanical_objects as mo
    import gearpy.units as un
    import gearpy.utils as ut
    import gearpy.sensors as se
    import gearpy.motor_control as mc
    import gearpy.motor_control.rules as ru
    from gearpy.powertrain import Powertrain
    from gearpy.solver import Solver
    from gearpy.motor_control.rules.rules_base import RuleBase
    from gearpy.sensors.sensor_base import SensorBase

    class NS:
        pass
    ns = NS()
    ns.mo, ns.un, ns.ut, ns.se, ns.mc, ns.ru = mo, un, ut, se, mc, ru
    ns.Powertrain, ns.Solver, ns.RuleBase, ns.SensorBase = Powertrain, Solver, RuleBase, SensorBase
    return ns


_g = None


def g():
    global _g
    if _g is None:
        _g = G()
    return _g


def mkq(q):
    """spec quantity -> gearpy quantity"""
    if q is None:
        return None
    return getattr(g().un, q['k'])(q['v'], q['u'])


def si(q):
    return q.value * SI.FACT[type(q).__name__][q.unit]


def load_value(load, t, pos, spd):
    """the generated load law in SI (Nm) -- also used by the C02 oracle on recorded values"""
    T = load['A'] + load['B'] * spd + load['C'] * pos
    if load['S']:
        T += load['S'] * math.sin(load['W'] * t)
    if load['step_t'] is not None and t >= load['step_t']:
        T += load['step_A']
    if load.get('P'):
        T += load['P'] * math.sin(2 * math.pi * load['fp'] * pos)          # a cam: position-periodic, period 1/fp radians
    return T


class Built:
    pass


class RunawayRun(Exception):
    pass


_SUB = {}


def _user_subclass(cls):
    """a trivial user subclass of a public element class (a user adding a part number, say)"""
    if cls not in _SUB:
        _SUB[cls] = type('My' + cls.__name__, (cls,), {'part_number': 'PN-1'})
    return _SUB[cls]


class _MoProxy:
    def __init__(self, mo):
        self._mo = mo

    def __getattr__(self, name):
        return _user_subclass(getattr(self._mo, name))


def make_element(e):
    mo = g().mo
    if e.get('subclass'):
        mo = _MoProxy(mo)
    t = e['type']
    if t == 'motor':
        kw = {}
        if e.get('i0') is not None:
            kw['no_load_electric_current'] = mkq(e['i0'])
        if e.get('imax') is not None:
            kw['maximum_electric_current'] = mkq(e['imax'])          # a data sheet may give only one of the two currents
        if e.get('explicit_none'):
            kw.setdefault('no_load_electric_current', None)
            kw.setdefault('maximum_electric_current', None)
        return mo.DCMotor(name=e['name'], inertia_moment=mkq(e['J']), no_load_speed=mkq(e['w0']), maximum_torque=mkq(e['Tmax']), **kw)
    if t == 'fly':
        return mo.Flywheel(name=e['name'], inertia_moment=mkq(e['J']))
    kw = {}
    if e.get('explicit_none'):
        # optional data given explicitly as None (its documented default) instead of being omitted
        kw = {'spur': dict(module=None, face_width=None, elastic_modulus=None), 'helical': dict(module=None, face_width=None, elastic_modulus=None),
              'wormwheel': dict(module=None, face_width=None), 'wormgear': {}}[t]
    if 'module' in e:
        kw['module'] = mkq(e['module'])
    if 'face_width' in e:
        kw['face_width'] = mkq(e['face_width'])
    if t == 'spur':
        if 'E' in e:
            kw['elastic_modulus'] = mkq(e['E'])
        if e.get('positional'):
            # arguments passed positionally in the documented order (name, n_teeth, inertia_moment, module, face_width, elastic_modulus)
            return mo.SpurGear(e['name'], e['z'], mkq(e['J']), kw.get('module'), kw.get('face_width'), kw.get('elastic_modulus'))
        return mo.SpurGear(name=e['name'], n_teeth=e['z'], inertia_moment=mkq(e['J']), **kw)
    if t == 'helical':
        if 'E' in e:
            kw['elastic_modulus'] = mkq(e['E'])
        if e.get('positional'):
            return mo.HelicalGear(e['name'], e['z'], mkq(e['J']), mkq(e['helix']), kw.get('module'), kw.get('face_width'), kw.get('elastic_modulus'))
        return mo.HelicalGear(name=e['name'], n_teeth=e['z'], inertia_moment=mkq(e['J']), helix_angle=mkq(e['helix']), **kw)
    if t == 'wormwheel':
        return mo.WormWheel(name=e['name'], n_teeth=e['z'], inertia_moment=mkq(e['J']), helix_angle=mkq(e['helix']),
                            pressure_angle=mkq(e['pa']), **kw)
    if t == 'wormgear':
        kw = {'reference_diameter': None} if e.get('explicit_none') else {}
        if 'd' in e:
            kw['reference_diameter'] = mkq(e['d'])
        return mo.WormGear(name=e['name'], n_starts=e['n_starts'], inertia_moment=mkq(e['J']), helix_angle=mkq(e['helix']),
                           pressure_angle=mkq(e['pa']), **kw)
    raise ValueError(t)


def declare(master, slave, rel):
    ut = g().ut
    if rel['type'] == 'joint':
        ut.add_fixed_joint(master=master, slave=slave)
    elif rel['type'] == 'gear':
        ut.add_gear_mating(master=master, slave=slave, efficiency=rel['eff'])
    else:
        f = rel['f']
        if rel.get('f_is_threshold'):
            wg = master if isinstance(master, g().mo.WormGear) else slave
            f = wg.pressure_angle.cos() * wg.helix_angle.tan()          # the user computes the threshold from the worm's own angles
        ut.add_worm_gear_mating(master=master, slave=slave, friction_coefficient=f)


def make_load(b, load):
    """a NEW load function object for the load description `load` (logs every call it receives in b.load_log)"""
    lu = load['unit']
    fac = SI.FACT['Torque'][lu]
    Torque = g().un.Torque
    log = b.load_log
    units_cycle = load.get('units_cycle')

    def external_torque(time, angular_position, angular_speed):
        t, p, w = si(time), si(angular_position), si(angular_speed)
        log.append((t, p, w))
        if load.get('reentrant'):
            # a load function that uses the public API on what it receives (without modifying it): copies in the units it likes
            # to compute in, comparisons, a sensor on the loaded element
            k_ = len(log)
            if load.get('reentrant') == 'inplace-time' and t > 0:
                # ... and converts the instant it receives IN PLACE (same instant, another unit; units in which the value
                # stays >= 1e-6, see the D9 note in sim/gen.py)
                us_ = [u_ for u_ in ('sec', 'ms', 'min', 'hour') if t / SI.FACT['Time'][u_] >= 1e-6]
                if us_:
                    time.to(us_[len(b.pt.time) % len(us_)], inplace=True)          # keyed by the instant, so that a rerun does the same
            time.to(('sec', 'ms', 'min')[k_ % 3])
            angular_position.to(('rad', 'deg', 'rot')[k_ % 3])
            angular_speed.to(('rad/s', 'rpm', 'deg/s')[(k_ + 1) % 3]) >= angular_speed
            g().se.Tachometer(target=b.last).get_value(unit='rpm')
            g().se.AbsoluteRotaryEncoder(target=b.last).get_value()
        if b.max_calls is not None and len(log) > b.max_calls:
            # online monitor at the load hook: a run that computes far more instants than its duration allows is stopped here
            # (otherwise a runaway time loop would only ever show up as a watchdog timeout, i.e. inconclusive)
            raise RunawayRun(f'more than {b.max_calls} load evaluations: the run computes instants far beyond the requested simulation time')
        if load.get('P') and load.get('lib_trig'):
            # the user writes the cam term with the library's own trigonometry on the position it receives
            # (AngularPosition.sin(frequency=...) = sin(2 pi f theta)); the oracle (C02) evaluates the same law with math.sin
            base_ = load_value(dict(load, P=0.0), t, p, w) + load['P'] * angular_position.sin(frequency=load['fp'])
            u_ = units_cycle[len(b.pt.time) % len(units_cycle)] if units_cycle else lu
            return Torque(base_ / SI.FACT['Torque'][u_], u_)
        if load.get('bare'):
            return load_value(load, t, p, w)          # the unit was forgotten: a bare float (the solver answers with a TypeError)
        if load.get('numpy'):
            import numpy as _np          # a load function written with numpy (the documentation's own examples use np.exp / np.sin)
            return Torque(_np.float64(load_value(load, t, p, w)) / _np.float64(fac), lu)
        if units_cycle:
            u_ = units_cycle[len(b.pt.time) % len(units_cycle)]    # a load function whose branches return different torque units (keyed by the instant, so that a rerun sees the same units)
            return Torque(load_value(load, t, p, w) / SI.FACT['Torque'][u_], u_)
        return Torque(load_value(load, t, p, w) / fac, lu)
    return external_torque


TOUCHABLE = ('inertia_moment', 'no_load_speed', 'maximum_torque', 'no_load_electric_current', 'maximum_electric_current',
             'module', 'face_width', 'elastic_modulus')


def touch_constants(b, spec):
    """The user reads constants back from the assembled elements and converts the returned quantities in place (a parts list
    printed in other units). The elements are physically the same afterwards. Angles are left alone: the library validates
    them by equality against table rows at computation time, which is defect D9's ground (recorded under C05/C07)."""
    import random as _r
    rng = _r.Random(spec['touch_constants'])
    for el, e in zip(b.elements, [spec['motor']] + list(spec['chain'])):
        names = list(TOUCHABLE) + (['reference_diameter'] if e['type'] == 'wormgear' else [])
        for a in names:
            obj = getattr(el, a, None)
            if obj is None or not hasattr(obj, 'to') or rng.random() < 0.5:
                continue
            us = [u for u in SI.units(type(obj).__name__) if u != obj.unit]
            obj.to(rng.choice(us), inplace=True)
            b.touched += 1


def failed_attempts(b, spec):
    """After the design is declared the user tries a few declarations the library rejects (out-of-range or ill-typed
    parameter, motor as slave) and catches the error: a rejected call leaves both elements as they were, so everything that
    follows is unaffected. A value the library happens to accept is followed by the scenario's own declaration again."""
    import random as _r
    rng = _r.Random(spec['failed_attempts'])
    ut = g().ut
    for i, e in enumerate(spec['chain']):
        if rng.random() < 0.4:
            continue
        m, s_ = b.elements[i], b.elements[i + 1]
        rel = e['rel']
        try:
            if rel['type'] == 'worm' and ([spec['motor']] + list(spec['chain']))[i]['type'] == 'wormgear' and rng.random() < 0.5:
                # the other orientation with a friction for which the documented efficiency formula leaves [0, 1] (for a
                # driving wheel: any friction above cos(alpha)*tan(beta) <= 0.97; for a driving worm: none within [0, 1])
                ut.add_worm_gear_mating(master=s_, slave=m, friction_coefficient=rng.choice([0.999, 1, 1.0]))
            elif rel['type'] == 'worm':
                ut.add_worm_gear_mating(master=m, slave=s_, friction_coefficient=rng.choice([1.5, -0.2, 0.999, 1, '0.3', None]))
            elif rel['type'] == 'gear' and rng.random() < 0.5:
                # ... the refused call names ANOTHER master (a spare gear with other teeth): were it to leave traces, the chain
                # would be re-routed and its ratio changed
                ch_ = [spec['motor']] + list(spec['chain'])
                spare = make_element(dict(ch_[i], name='spare', z=ch_[i]['z'] + 7))
                ut.add_gear_mating(master=spare, slave=s_, efficiency=rng.choice([1.2, -0.1, None, '0.9']))
            elif rel['type'] == 'gear':
                ut.add_gear_mating(master=m, slave=s_, efficiency=rng.choice([1.2, -0.1, None, '0.9', 1.0000001]))
            else:
                ut.add_fixed_joint(master=s_, slave=b.elements[0])
            declare(m, s_, rel)
        except (ValueError, TypeError):
            b.rejected_attempts += 1


def prior_design(b, spec):
    """An earlier design of the same pieces: before the relations of the scenario are declared, some adjacent pairs are
    first related in ANOTHER legal way (same pair, same direction), which the final declaration then replaces as a whole.
    Only replacements after which no documented state of the earlier relation is left are used: a gear mating becomes a
    fixed joint only between gears without a module (no force / stress computation looks at the stale mating role)."""
    import random as _r
    rng = _r.Random(spec['prior_design'])
    ut = g().ut
    chain = [spec['motor']] + list(spec['chain'])
    for i, e in enumerate(spec['chain']):
        if rng.random() < 0.3:
            continue
        m, s_ = b.elements[i], b.elements[i + 1]
        em, es = chain[i], chain[i + 1]
        rel = e['rel']
        try:
            if rel['type'] == 'joint':
                if em.get('type') in ('spur', 'helical') and es.get('type') == em.get('type') and 'module' not in em and 'module' not in es \
                        and em.get('helix') == es.get('helix'):
                    # efficiency 1: add_fixed_joint documents (and sets) links and ratio only, so a lossy earlier mating would
                    # leave its efficiency on the slave and no property says what a joint's efficiency is (DESIGN Appendix B)
                    ut.add_gear_mating(master=m, slave=s_, efficiency=rng.choice([1, 1.0]))
                    b.prior_design.append((i, 'gear->joint'))
            elif rel['type'] == 'gear':
                if rng.random() < 0.5:
                    ut.add_fixed_joint(master=m, slave=s_)
                    b.prior_design.append((i, 'joint->gear'))
                else:
                    ut.add_gear_mating(master=m, slave=s_, efficiency=rng.choice([0.9, 0.5, 1, 0.123]))
                    b.prior_design.append((i, 'gear->gear'))
            else:
                if rng.random() < 0.3:
                    ut.add_fixed_joint(master=m, slave=s_)
                    b.prior_design.append((i, 'joint->worm'))
                else:
                    ut.add_worm_gear_mating(master=m, slave=s_, friction_coefficient=rng.choice([0.0, 0.02, 0.3, 0.6, 0.9]))
                    b.prior_design.append((i, 'worm->worm'))
        except ValueError:
            b.prior_design.append((i, 'rejected'))


def build(spec, hooks=True):
    """returns Built with .motor .elements .pt .last and logs; raises what gearpy raises"""
    G_ = g()
    b = Built()
    b.spec = spec
    b.load_log = []           # (t_si, pos_si, speed_si) as passed by the solver
    b.rule_log = []           # per apply_rules round: list of proposals
    b.probe_log = []          # per recorded instant
    b.elements = [make_element(spec['motor'])]
    for e in spec['chain']:
        b.elements.append(make_element(e))
    b.prior_design = []
    if spec.get('prior_design') is not None:
        prior_design(b, spec)
    idx = list(range(len(spec['chain'])))
    if spec.get('declare_order') == 'backward':
        idx.reverse()                    # the chain is wired from the load side back to the motor
    elif isinstance(spec.get('declare_order'), int):
        import random as _r
        _r.Random(spec['declare_order']).shuffle(idx)
    for i in idx:
        declare(b.elements[i], b.elements[i + 1], spec['chain'][i]['rel'])
    b.motor, b.last = b.elements[0], b.elements[-1]
    b.rejected_attempts = 0
    if spec.get('failed_attempts') is not None:
        failed_attempts(b, spec)
    b.touched = 0
    if spec.get('touch_constants') is not None:
        touch_constants(b, spec)
    b.max_calls = None
    b.cur_load = spec['load']
    external_torque = make_load(b, spec['load'])
    # The order of the public calls a user makes is free wherever the API allows it; `spec['order']` (an integer) selects one
    # of the legal orders: load callback and initial conditions before or after assembling the powertrain; solver, control
    # and stop condition in any order afterwards.
    order = int(spec.get('order', 0))

    def set_load():
        if not spec.get('forget_load'):          # the load is assigned later, by a 'setload' operation of the schedule
            b.last.external_torque = external_torque

    def set_ic():
        apply_ic(b)

    def mk_solver():
        b.solver = G_.Solver(powertrain=b.pt)

    def mk_control():
        b.control = None
        b.rules = []
        if spec.get('rules'):
            b.control = G_.mc.PWMControl(powertrain=b.pt)
            for r in spec['rules']:
                rule = make_rule(b, r)
                b.rules.append(rule)
                b.control.add_rule(RecordingRule(rule, b) if hooks else rule)

    def mk_stop():
        b.stop = make_stop(b, spec['stop'], hooks) if spec.get('stop') else None
    pre = [set_load, set_ic]
    if order & 1:
        pre.reverse()
    post = [mk_solver, mk_control, mk_stop]
    post = [post[j] for j in [(0, 1, 2), (1, 0, 2), (2, 1, 0), (1, 2, 0), (0, 2, 1), (2, 0, 1)][(order >> 2) % 6]]
    if order & 2:
        # everything that only needs the elements comes after the powertrain has been assembled
        b.pt = G_.Powertrain(motor=b.motor)
        for f_ in pre:
            f_()
    else:
        for f_ in pre:
            f_()
        b.pt = G_.Powertrain(motor=b.motor)
    if spec.get('deepcopy'):
        # the user works on a deep copy of the assembled model (a variant study): the copy is the model from here on
        import copy as _copy
        b.original_pt = b.pt
        b.pt = _copy.deepcopy(b.pt)
        b.elements = list(b.pt.elements)
        b.motor, b.last = b.elements[0], b.elements[-1]
    for f_ in post:
        f_()
    if spec.get('touch_constants') is not None and spec['touch_constants'] % 2:
        # ... and once more after the solver, the control and its rules have been built
        touch_constants(b, dict(spec, touch_constants=spec['touch_constants'] + 1))
    if spec.get('forget_load'):
        b.captures = []
        saved, b.spec = b.spec, dict(spec, schedule=[{'op': 'badrun', 'how': 'noload'}])
        run_schedule(b)
        b.spec = saved
        b.last.external_torque = external_torque
    for op_ in spec.get('schedule', []):
        if op_['op'] == 'bystander' and op_['spec'].get('prebuilt', True):
            # the other model (same part names, other numbers) and its solver exist before this model's first run
            try:
                b.bystander = build(op_['spec'], hooks=False)
                b.bystander.next_op = 0
            except Exception:
                b.bystander_failures = getattr(b, 'bystander_failures', 0) + 1
            break
    b.is_probe = False
    if b.stop is None and spec.get('probe'):
        b.stop = make_probe(b)
        b.is_probe = True
    return b


def mkq_history(q, via_unit):
    """the quantity q, but built in another unit (harness conversion) and converted in place to q's unit: an object with a history"""
    if not via_unit or via_unit == q['u']:
        return mkq(q)
    obj = getattr(g().un, q['k'])(SI.convert(q['k'], q['v'], q['u'], via_unit), via_unit)
    obj.to(q['u'], inplace=True)
    return obj


def apply_ic(b, units=None):
    """everything the scenario sets before the first run: position and speed of the last element and the duty cycle
    (re-applying after reset re-applies exactly these, the duty cycle explicitly even when it was the default)"""
    ic = b.spec['ic']
    pos, spd = ic['pos'], ic['speed']
    if units:
        # the same initial conditions written in other units (harness conversion)
        from . import gen as GEN
        pos, spd = GEN.reexpress(pos, units.get('pos', pos['u'])), GEN.reexpress(spd, units.get('speed', spd['u']))
    if ic.get('numpy'):
        # initial conditions read from arrays (a snapshot cell, a measured series): numpy.float64 values, which ARE floats
        import numpy as _np
        pos, spd = dict(pos, v=_np.float64(pos['v'])), dict(spd, v=_np.float64(spd['v']))
    b.last.angular_position = mkq(pos)
    via = ic.get('angle_pos')
    if via and pos['v'] >= 0 and not b.spec.get('rules'):          # rules compute with the encoder reading (negative factors: Angle refuses)
        # the initial position is handed over as an Angle (a legal AngularPosition) that was converted in place before
        obj = g().un.Angle(SI.convert('Angle', float(pos['v']), pos['u'], via), via) if via != pos['u'] else g().un.Angle(pos['v'], via)
        obj.to(pos['u'], inplace=True)
        b.last.angular_position = obj
    b.last.angular_speed = mkq(spd)
    if ic.get('pwm') is not None:
        b.motor.pwm = ic['pwm']
    elif hasattr(b, 'pwm0') and b.spec.get('reapply_pwm', True):
        b.motor.pwm = b.pwm0
    if not hasattr(b, 'pwm0'):
        b.pwm0 = b.motor.pwm


_RR = None


def RecordingRule(inner, b):
    global _RR
    if _RR is None:
        class _RecordingRule(g().RuleBase):
            def __init__(self, inner, b):
                super().__init__()
                self.inner, self.b = inner, b

            def apply(self):
                v = self.inner.apply()
                self.b.rule_log.append((len(self.b.pt.time), id(self.inner), v))
                return v
        _RR = _RecordingRule
    return _RR(inner, b)


def make_sensor(b, kind, idx):
    se = g().se
    if kind == 'enc':
        return se.AbsoluteRotaryEncoder(target=b.elements[idx])
    if kind == 'tach':
        return se.Tachometer(target=b.elements[idx])
    return se.Amperometer(target=b.motor)


def make_rule(b, r):
    ru, se = g().ru, g().se
    t = r['type']
    if t == 'const':
        return ru.ConstantPWM(timer=se.Timer(start_time=mkq(r['start']), duration=mkq(r['dur'])), powertrain=b.pt, target_pwm_value=r['value'])
    if t == 'reach':
        return ru.ReachAngularPosition(encoder=make_sensor(b, 'enc', r['enc']), powertrain=b.pt,
                                       target_angular_position=mkq(r['target']), braking_angle=mkq(r['brake']))
    if t == 'startprop':
        return ru.StartProportionalToAngularPosition(encoder=make_sensor(b, 'enc', r['enc']), powertrain=b.pt,
                                                     target_angular_position=mkq(r['target']), pwm_min_multiplier=r['mult'],
                                                     pwm_min=r.get('pwm_min'))
    if t == 'startlim':
        return ru.StartLimitCurrent(encoder=make_sensor(b, 'enc', r['enc']), tachometer=make_sensor(b, 'tach', r['tach']), motor=b.motor,
                                    target_angular_position=mkq(r['target']), limit_electric_current=mkq(r['limit']))
    raise ValueError(t)


OPS = {'gt': 'greater_than', 'ge': 'greater_than_or_equal_to', 'eq': 'equal_to', 'lt': 'less_than', 'le': 'less_than_or_equal_to'}
_RS = None


def RecordingSensor(inner, b):
    global _RS
    if _RS is None:
        class _RecordingSensor(g().SensorBase):
            def __init__(self, inner, b):
                self.inner, self.b = inner, b

            @property
            def target(self):
                return self.inner.target

            def get_value(self, unit=None):
                v = self.inner.get_value()
                self.b.probe_log.append((len(self.b.pt.time), type(v).__name__, getattr(v, 'value', v), getattr(v, 'unit', None)))
                return v
        _RS = _RecordingSensor
    return _RS(inner, b)


_PS = None


def make_probe(b):
    """a StopCondition whose sensor never trips: called by the solver after each *recorded* instant.
    Records len(time), per-series lengths, identity of last sample vs live attribute, and (auxiliary,
    when readable) the solver's private lock flag."""
    global _PS
    G_ = g()
    if _PS is None:
        class _ProbeSensor(G_.SensorBase):
            def __init__(self, b):
                self.b = b
                self.zero = G_.un.AngularPosition(0, 'rad')

            @property
            def target(self):
                return self.b.motor

            def get_value(self, unit=None):
                b = self.b
                n = len(b.pt.time)
                bad = None
                for el in b.pt.elements:
                    for v, series in el.time_variables.items():
                        if len(series) != n:
                            bad = (el.name, v, len(series), n)
                flag = getattr(b.solver, '_Solver__powertrain_is_locked', None)
                b.probe_log.append((n, bad, flag))
                return self.zero
        _PS = _ProbeSensor
    return G_.ut.StopCondition(sensor=_PS(b), threshold=G_.un.AngularPosition(1, 'rad'), operator=G_.ut.StopCondition.greater_than)


def make_stop(b, s, hooks=True):
    ut = g().ut
    sensor = make_sensor(b, s['sensor'], s['elem'])
    if hooks:
        sensor = RecordingSensor(sensor, b)
    thr = mkq(s['thr'])
    if s['thr']['k'] == 'AngularPosition' and s['thr']['v'] >= 0 and __import__('zlib').crc32(repr(float(s['thr']['v'])).encode()) % 3 == 0:
        # a third of the non-negative position thresholds are handed over as Angle objects (a legal AngularPosition); the choice is a
        # function of the number so that a replay and a twin run make the same one
        thr = g().un.Angle(s['thr']['v'], s['thr']['u'])
    # the threshold object the user handed over is remembered with what it was: it must come back from every run unchanged
    b.thresholds = getattr(b, 'thresholds', []) + [(thr, thr.value, thr.unit, type(thr).__name__)]
    return ut.StopCondition(sensor=sensor, threshold=thr, operator=getattr(ut.StopCondition, OPS[s['op']]))


# ---------------------------------------------------------------------------

VARS6 = ['angular position', 'angular speed', 'angular acceleration', 'torque', 'driving torque', 'load torque']
VAR_KIND = {'angular position': 'AngularPosition', 'angular speed': 'AngularSpeed', 'angular acceleration': 'AngularAcceleration',
            'torque': 'Torque', 'driving torque': 'Torque', 'load torque': 'Torque', 'tangential force': 'Force',
            'bending stress': 'Stress', 'contact stress': 'Stress', 'electric current': 'Current', 'pwm': None}


class Trace:
    pass


def extract(b, raw=False):
    """copy the recorded histories into plain SI floats (own table); also checks nothing about them"""
    tr = Trace()
    pt = b.pt
    tr.time = [si(t) for t in pt.time]
    tr.time_units = [t.unit for t in pt.time]
    tr.time_kinds = [type(t).__name__ for t in pt.time]
    tr.n = len(tr.time)
    tr.self_locking = pt.self_locking
    tr.load = getattr(b, 'cur_load', None)
    tr.probe_log = list(b.probe_log[getattr(b, 'probe_log_mark', 0):])      # the probe entries of THIS history (since the last reset)
    tr.els = []
    tr.bad_kind = []
    for el in pt.elements:
        d = {'name': el.name, 'cls': type(el).__name__, 'ratio': getattr(el, 'master_gear_ratio', None),
             'eff': getattr(el, 'master_gear_efficiency', None), 'J': si(el.inertia_moment), 'vars': {}, 'units': {},
             'role': getattr(getattr(el, 'mating_role', None), '__name__', None)}
        for v, series in el.time_variables.items():
            kind = VAR_KIND.get(v, '?')
            out = []
            for s in series:
                if kind is None:
                    if isinstance(s, bool) or not isinstance(s, (int, float)):
                        tr.bad_kind.append((el.name, v, type(s).__name__))
                        out.append(float('nan'))
                    else:
                        out.append(s)
                else:
                    if not isinstance(s, getattr(g().un, kind)):          # an instance of the advertised kind (an Angle IS an AngularPosition)
                        tr.bad_kind.append((el.name, v, type(s).__name__))
                        out.append(float('nan'))
                    else:
                        out.append(s.value * SI.FACT[kind][s.unit])
            d['vars'][v] = out
            if raw:
                d['units'][v] = [(getattr(s, 'value', s), getattr(s, 'unit', None)) for s in series]
        tr.els.append(d)
    tr.pwm = tr.els[0]['vars'].get('pwm', [])
    return tr


def run_schedule(b, on_capture=None):
    """execute the schedule; returns list of run records; each run record has start/end indices into the
    time axis of the *current* history (since the last reset)."""
    runs = []
    b.captures = []
    for op in b.spec['schedule']:
        o = op['op']
        if o == 'run':
            rec = {'n0': len(b.pt.time), 'dt': SI.to_si('Time', op['dt']['v'], op['dt']['u']), 'T': SI.to_si('Time', op['T']['v'], op['T']['u']),
                   'fresh': len(b.pt.time) == 0, 'pwm_before': b.motor.pwm, 'exc': None, 'dt_q': op['dt'], 'T_q': op['T'],
                   'control': bool(b.control) and op.get('control', True),
                   'stop': bool(b.stop) and op.get('stop', True) and not b.is_probe, 'probe': b.is_probe,
                   'load_calls0': len(b.load_log), 'load': getattr(b, 'cur_load', None)}
            n_expected = int(math.ceil(round(rec['T'] / rec['dt'], 9))) + 1
            b.max_calls = len(b.load_log) + 3 * n_expected + 10
            stop = b.stop if (rec['stop'] or rec['probe']) else None
            if op.get('stop_spec'):
                stop = make_stop(b, op['stop_spec'])          # a stop condition of its own for this run
                rec['stop'] = True
            dt_obj, T_obj = mkq_history(op['dt'], op.get('dt_via')), mkq_history(op['T'], op.get('T_via'))
            given_ = [(o_, o_.value, o_.unit) for o_ in (dt_obj, T_obj)]
            try:
                b.solver.run(time_discretization=dt_obj, simulation_time=T_obj,
                             motor_control=b.control if rec['control'] else None,
                             stop_condition=stop)
            except Exception as ex:          # recorded, judged by the monitors
                rec['exc'] = (type(ex).__name__, str(ex)[:200])
                if __import__('os').environ.get('VERIF_TRACE'):
                    import traceback; traceback.print_exc()
            # the quantities handed to run() are the caller's: they come back as they were
            for name_, (o_, v_, u_) in zip(('time_discretization', 'simulation_time'), given_):
                if o_.value != v_ or o_.unit != u_:
                    b.modified_run_arguments = getattr(b, 'modified_run_arguments', []) + [{'argument': name_, 'given': [v_, u_], 'after_the_run': [o_.value, o_.unit]}]
            b.max_calls = None
            rec['n1'] = len(b.pt.time)
            rec['load_calls1'] = len(b.load_log)
            runs.append(rec)
            if rec['exc']:
                break
        elif o == 'reset':
            b.captures.append((extract(b, raw=getattr(b, 'raw_capture', False)), list(runs)))
            if on_capture:
                on_capture(b)
            b.pt.reset()
            runs = []
            b.rule_log_mark, b.probe_log_mark, b.load_log_mark = len(b.rule_log), len(b.probe_log), len(b.load_log)
        elif o == 'newpowertrain':
            # the user assembles a NEW Powertrain object from the same (already simulated) motor and resets through it: it shares
            # the elements, so this is a reset like any other and the next history starts afresh. With a controller / stop
            # condition bound to the old object the plain reset is used instead.
            b.captures.append((extract(b, raw=getattr(b, 'raw_capture', False)), list(runs)))
            if on_capture:
                on_capture(b)
            if b.control is None and (b.stop is None or getattr(b, 'is_probe', False)):
                b.old_pt = b.pt
                b.pt = g().Powertrain(motor=b.motor)
                b.pt.reset()
                b.solver = g().Solver(powertrain=b.pt)
                b.new_powertrains = getattr(b, 'new_powertrains', 0) + 1
            else:
                b.pt.reset()
            runs = []
            b.rule_log_mark, b.probe_log_mark, b.load_log_mark = len(b.rule_log), len(b.probe_log), len(b.load_log)
        elif o == 'reapply':
            apply_ic(b, op.get('units'))
        elif o == 'newsolver':
            b.solver = g().Solver(powertrain=b.pt)
        elif o == 'failrun':
            # a run that is expected to fail inside its first instant (user error in a callback); whatever it leaves behind,
            # the NEXT call is judged. Not entered in the list of runs.
            try:
                b.solver.run(time_discretization=mkq(op['dt']), simulation_time=mkq(op['T']), motor_control=b.control)
                b.failrun_outcome = 'accepted'
            except Exception as ex:
                b.failrun_outcome = type(ex).__name__
        elif o == 'swapsolver':
            # two Solver objects over the same powertrain, used alternately: the history is the powertrain's, whichever solver
            # advances it
            # (not on self-locking powertrains: whether the powertrain is currently held is remembered by the Solver object, so a
            # second solver starts "not held" -- observed on the unchanged tree, appendix B; no property speaks about two solvers)
            if not b.pt.self_locking:
                other = getattr(b, 'other_solver', None) or g().Solver(powertrain=b.pt)
                b.other_solver, b.solver = b.solver, other
                b.solver_swaps = getattr(b, 'solver_swaps', 0) + 1
        elif o == 'twin':
            # a second Powertrain object is assembled from the SAME motor while the first one holds a history (the user wants a
            # second handle, e.g. for another solver): constructing it must not disturb what is recorded
            b.twin = g().Powertrain(motor=b.motor)
            b.twins = getattr(b, 'twins', 0) + 1
        elif o == 'report':
            # between two runs the user reports the live state in other units: the quantities held by the elements' public
            # attributes (which are also the last recorded samples) are converted IN PLACE; magnitudes are unchanged.
            # Positions and speeds are left alone (several monitors compare them exactly across the boundary).
            import random as _r
            rr_ = _r.Random(op.get('seed', 0))
            for el in b.pt.elements:
                for a_ in ('angular_acceleration', 'torque', 'driving_torque', 'load_torque'):
                    obj = getattr(el, a_, None)
                    if obj is not None and hasattr(obj, 'to') and rr_.random() < 0.7:
                        us_ = [u_ for u_ in SI.units(type(obj).__name__) if u_ != obj.unit]
                        obj.to(rr_.choice(us_), inplace=True)
                        b.reported = getattr(b, 'reported', 0) + 1
        elif o == 'remount':
            # the driven part of this (already simulated) powertrain is ALSO mounted on a second motor and assembled there;
            # the first powertrain is fixed at its construction and keeps working on its own element tuple
            try:
                mb = make_element(dict(b.spec['motor'], name='motor b'))
                g().ut.add_fixed_joint(master=mb, slave=b.elements[1])
                b.second_pt = g().Powertrain(motor=mb)
                b.remounts = getattr(b, 'remounts', 0) + 1
            except Exception as ex:
                b.mid_schedule_failures = getattr(b, 'mid_schedule_failures', []) + [('remount:' + type(ex).__name__, str(ex)[:200])]
        elif o == 'bystander':
            # ANOTHER, independent model alive in the same process is built (first time) and advanced by one of its own
            # operations between two operations of this one: models must not influence each other
            bb = getattr(b, 'bystander', None)
            try:
                if bb is None:
                    bb = b.bystander = build(op['spec'], hooks=False)
                    bb.next_op = 0
                ops_ = [x for x in op['spec']['schedule'] if x['op'] in ('run', 'reset', 'reapply')]
                if bb.next_op < len(ops_):
                    saved_ = bb.spec
                    bb.spec = dict(saved_, schedule=[ops_[bb.next_op]])
                    run_schedule(bb)
                    bb.spec = saved_
                    bb.next_op += 1
                b.bystander_ops = getattr(b, 'bystander_ops', 0) + 1
            except Exception as ex:          # the bystander's own troubles are not this model's business
                b.bystander_failures = getattr(b, 'bystander_failures', 0) + 1
        elif o == 'badrun':
            # a call of Solver.run the library rejects while checking its arguments (documented TypeError / ValueError): it
            # leaves no trace, whatever follows is unaffected. Observed here: exception class and the frame condition.
            un = g().un
            how = op['how']
            before = (len(b.pt.time), [(el.name, v, len(sr)) for el in b.pt.elements for v, sr in el.time_variables.items()])
            dtq, Tq = un.TimeInterval(1, 'ms'), un.TimeInterval(20, 'ms')
            kw = dict(time_discretization=dtq, simulation_time=Tq, motor_control=b.control, stop_condition=None)
            if how == 'types':
                kw['time_discretization'] = un.Time(1, 'ms')
            elif how == 'dt_ge_T':
                kw['simulation_time'] = un.TimeInterval(1, 'ms') if op.get('equal') else un.TimeInterval(0.5, 'ms')
            elif how == 'control_type':
                kw['motor_control'] = 'pwm'
            elif how == 'stop_type':
                kw['stop_condition'] = lambda: True
            try:
                b.solver.run(**kw)
                outcome = 'accepted'
            except (TypeError, ValueError) as ex:
                outcome = type(ex).__name__
            except Exception as ex:
                outcome = 'other:' + type(ex).__name__
            after = (len(b.pt.time), [(el.name, v, len(sr)) for el in b.pt.elements for v, sr in el.time_variables.items()])
            b.rejected_runs = getattr(b, 'rejected_runs', 0) + 1
            if outcome not in ('TypeError', 'ValueError') or after != before:
                b.rejected_run_effects = getattr(b, 'rejected_run_effects', []) + [
                    {'how': how, 'outcome': outcome, 'instants_before': before[0], 'instants_after': after[0],
                     'series_changed': [x for x, y in zip(after[1], before[1]) if x != y][:4]}]
        elif o == 'setload':
            # the user assigns ANOTHER load function to the loaded element (between two histories)
            b.cur_load = op['load']
            b.last.external_torque = make_load(b, op['load'])
        elif o == 'setpwm':
            b.motor.pwm = op['value']              # the user changes the duty cycle between two runs
        elif o == 'export':
            # export / snapshot in the middle of a schedule (they must not disturb what follows); failures are recorded
            import os
            import shutil
            import tempfile
            d = tempfile.mkdtemp(prefix='vf-midexp-', dir=os.environ.get('VERIF_SCRATCH', '/var/tmp'))
            try:
                try:
                    b.pt.export_time_variables(folder_path=d)
                    if len(b.pt.time) >= 2:
                        b.pt.snapshot(target_time=b.pt.time[1], print_data=False)
                except Exception as ex:
                    b.mid_schedule_failures = getattr(b, 'mid_schedule_failures', []) + [(type(ex).__name__, str(ex)[:200])]
            finally:
                shutil.rmtree(d, ignore_errors=True)
    b.runs = runs
    b.modified_thresholds = [{'given': [k_, v_, u_], 'now': [type(o_).__name__, o_.value, o_.unit]} for (o_, v_, u_, k_) in getattr(b, 'thresholds', [])
                             if not (type(o_).__name__ == k_ and o_.unit == u_ and (o_.value == v_ or (o_.value != o_.value and v_ != v_)))]
    return runs
