"""Cell oracles for Powertrain.snapshot and export_time_variables (used by C17 and C18)."""
import csv
import math
import os
import shutil
from ..ref import si as SI
from . import build as B

VK = B.VAR_KIND
ARG = {'angular position': 'angular_position_unit', 'angular speed': 'angular_speed_unit', 'angular acceleration': 'angular_acceleration_unit',
       'torque': 'torque_unit', 'driving torque': 'driving_torque_unit', 'load torque': 'load_torque_unit', 'tangential force': 'force_unit',
       'bending stress': 'stress_unit', 'contact stress': 'stress_unit', 'electric current': 'current_unit'}
ALLV = list(ARG) + ['pwm']
UNIT_ARGS = sorted(set(ARG.values()))
ARG_KIND = {a: VK[v] for v, a in ARG.items()}


def random_units(rng):
    return {a: rng.choice(SI.units(k)) for a, k in ARG_KIND.items()}


def label(v, units):
    return v if v == 'pwm' else f'{v} ({units[ARG[v]]})'


def series_in_unit(tr_el, v, units):
    s = tr_el['vars'][v]
    if v == 'pwm':
        return list(s)
    f = SI.FACT[VK[v]][units[ARG[v]]]
    return [x / f for x in s]


def expected_cell(ser, tsec, t):
    """linear interpolation of the two neighbouring samples (exact sample on the grid)"""
    n = len(tsec)
    j = 0
    for i in range(n):
        if tsec[i] <= t:
            j = i
    if ser[j] == ser[j] and tsec[j] == t:
        return ser[j], abs(ser[j])
    j = min(j, n - 2)
    lam = (t - tsec[j]) / (tsec[j + 1] - tsec[j])
    return ser[j] + (ser[j + 1] - ser[j]) * lam, max(abs(ser[j]), abs(ser[j + 1]))


def check_snapshot(ctx, b, tr, target_q, variables, units, case, judge_values=True):
    """returns True if everything checked held; reports violations through ctx"""
    G = B.g()
    target = B.mkq(target_q)
    kw = dict(units)
    try:
        ORDER = ('angular_position_unit', 'angular_speed_unit', 'angular_acceleration_unit', 'torque_unit', 'driving_torque_unit', 'load_torque_unit',
                 'force_unit', 'stress_unit', 'current_unit')          # the documented order of snapshot's unit parameters
        if all(k_ in kw for k_ in ORDER) and len(str(target_q['v'])) % 3 == 0:
            # everything passed positionally, in the documented order
            ctx.count('snapshots_called_positionally')
            df = b.pt.snapshot(target, list(variables) if variables is not None else None, *[kw[k_] for k_ in ORDER], False)
        else:
            df = b.pt.snapshot(target_time=target, variables=list(variables) if variables is not None else None, print_data=False, **kw)
    except Exception as ex:
        ctx.violation('snapshot-raised', {'target_time': target_q, 'variables': variables, 'units': units, 'exception': type(ex).__name__ + ': ' + str(ex)[:200]}, case)
        return False
    ctx.count('snapshots')
    if not judge_values:
        return True
    advertised = set()
    for e in tr.els:
        advertised |= set(e['vars'])
    requested = list(variables) if variables is not None else sorted(advertised)
    allowed = {label(v, units) for v in requested}
    cols = list(df.columns)
    extra = [c for c in cols if c not in allowed]
    if extra and variables is not None:
        ctx.violation('snapshot-unrequested-column', {'requested': requested, 'columns': cols, 'extra': extra}, case)
        return False
    t = target_q['v'] * SI.FACT['Time'][target_q['u']]
    for e in tr.els:
        for v in requested:
            if v not in e['vars']:
                continue
            col = label(v, units)
            ser = series_in_unit(e, v, units)
            if any(not math.isfinite(x) for x in ser):
                continue
            exp, sc = expected_cell(ser, tr.time, t)
            try:
                got = float(df.loc[e['name'], col])
            except Exception as ex:
                ctx.violation('snapshot-missing-cell', {'element': e['name'], 'column': col, 'requested': requested, 'columns': cols, 'error': type(ex).__name__}, case)
                return False
            ctx.count('snapshot_cells')
            if not (abs(got - exp) <= 1e-9 * max(sc, abs(exp)) + 1e-300):
                ctx.violation('snapshot-cell', {'element': e['name'], 'column': col, 'got': got, 'expected': exp, 'target_time': target_q, 'time_axis_around': [x for x in tr.time if abs(x - t) <= 2 * (tr.time[1] - tr.time[0])][:4]}, case)
                return False
    return True


def check_export(ctx, b, tr, folder, time_unit, units, case, judge_values=True):
    os.makedirs(folder, exist_ok=True)
    try:
        try:
            b.pt.export_time_variables(folder_path=folder, time_unit=time_unit, **units)
        except Exception as ex:
            ctx.violation('export-raised', {'time_unit': time_unit, 'units': units, 'exception': type(ex).__name__ + ': ' + str(ex)[:200]}, case)
            return False
        ctx.count('exports')
        if not judge_values:
            return True
        ft = SI.FACT['Time'][time_unit]
        for e in tr.els:
            path = os.path.join(folder, e['name'] + '.csv')
            if not os.path.exists(path):
                ctx.violation('export-file-missing', {'element': e['name'], 'files': sorted(os.listdir(folder))}, case)
                return False
            with open(path, newline='') as f:
                rows = list(csv.DictReader(f))
            if len(rows) != tr.n:
                ctx.violation('export-row-count', {'element': e['name'], 'rows': len(rows), 'instants': tr.n}, case)
                return False
            want = {f'time ({time_unit})'} | {label(v, units) for v in e['vars']}
            if rows and set(rows[0]) != want:
                ctx.violation('export-columns', {'element': e['name'], 'columns': sorted(rows[0]), 'expected': sorted(want)}, case)
                return False
            cols = {v: series_in_unit(e, v, units) for v in e['vars']}
            for i, r in enumerate(rows):
                et = tr.time[i] / ft
                gt = float(r[f'time ({time_unit})'])
                if abs(gt - et) > 1e-12 * max(abs(et), 1e-300) + 1e-300:
                    ctx.violation('export-time-cell', {'element': e['name'], 'row': i, 'got': gt, 'expected': et, 'time_unit': time_unit}, case)
                    return False
                for v, ser in cols.items():
                    exp = ser[i]
                    raw = r[label(v, units)]
                    got = float(raw) if raw != '' else float('nan')
                    ctx.count('csv_cells')
                    if exp != exp and got != got:
                        continue
                    if not (abs(got - exp) <= 1e-12 * max(abs(exp), 1e-300) or (math.isinf(exp) and got == exp)):
                        ctx.violation('export-cell', {'element': e['name'], 'row': i, 'column': label(v, units), 'got': got, 'expected': exp}, case)
                        return False
        return True
    finally:
        shutil.rmtree(folder, ignore_errors=True)
