"""Offline monitors over a recorded Trace (pure functions of spec + trace + run records).

Each monitor reports through ctx (counters / violations) and is used by several checks; the
`props` argument selects which property's clauses produce violations.
"""
import math
from ..ref import si as SI
from ..ref import motor as RM
from ..ref import lock as RL
from . import gen as GEN
from .build import load_value

REL = 1e-9


def close(a, b, rel=REL, floor=0.0):
    if a == b:
        return True
    if not (math.isfinite(a) and math.isfinite(b)):
        return False
    return abs(a - b) <= rel * max(abs(a), abs(b)) + floor


def finite_prefix(tr):
    """number of leading instants at which every recorded sample is finite"""
    n = min([tr.n] + [len(s) for e in tr.els for s in e['vars'].values()])
    for k in range(n):
        for e in tr.els:
            for v, s in e['vars'].items():
                x = s[k]
                if x != x or x in (math.inf, -math.inf):
                    return k
    return n


def run_of(runs, k):
    for r in runs:
        if r['n0'] <= k < r['n1'] or (r['fresh'] and k == 0 and r['n0'] == 0):
            return r
    return None


class Ana:
    """shared analysis of one trace: reference numbers, lock machine, regimes"""

    def __init__(self, spec, tr, runs):
        self.spec, self.tr, self.runs = spec, tr, runs
        self.nums = GEN.chain_numbers(spec)
        if self.nums['self_locking_near_threshold']:
            # friction within rounding distance of cos(alpha) tan(beta): the flag itself is a rounding matter (the library's
            # trigonometry on converted angles may differ from the harness's by an ulp) -- adopt the observed flag
            self.nums['self_locking'] = bool(tr.self_locking)
        self.N = finite_prefix(tr)
        self.overflowed = tr.n - self.N if tr.n > self.N else 0
        self.L = tr.els[-1]['vars']
        self.M = tr.els[0]['vars']
        self.Gs = self.nums['G']
        self.dt = [None] * tr.n        # dt in force for the step (k-1 -> k)
        self.first_of_run = set()
        self.run_start_pwm = {r['n0']: r['pwm_before'] for r in runs if not r['fresh']}
        self.regime = ['run'] * tr.n
        for i, r in enumerate(runs):
            for k in range(r['n0'], r['n1']):
                if k < tr.n:
                    self.dt[k] = r['dt']
                    if i > 0:
                        self.regime[k] = 'continued'
            if r['fresh'] and r['n1'] > r['n0']:
                self.dt[r['n0']] = None
                self.first_of_run.add(r['n0'])
        if tr.n:
            self.regime[0] = 'first'
        self._lock()

    def observed_held(self, k):
        for e in self.tr.els:
            if e['vars']['angular speed'][k] != 0 or e['vars']['angular acceleration'][k] != 0:
                return False
        return True

    def _lock(self):
        tr, N = self.tr, self.N
        sl = self.nums['self_locking']
        # decision scales: relative 1e-9, and never finer than the library's absolute 1e-12 in the unit
        # the compared quantity is expressed in (defect D9 is recorded under C05, not re-reported here)
        if self.spec.get('_any_unit'):
            # metamorphic runs (C07): the decision must be unit-independent, so the near-threshold zone covers the library's
            # absolute 1e-12 tolerance in the *coarsest* unit of the kind
            fw, ft = max(SI.FACT['AngularSpeed'].values()), max(SI.FACT['Torque'].values())
        else:
            fw, ft = SI.FACT['AngularSpeed'][self.spec['ic']['speed']['u']], SI.FACT['Torque'][self.spec['motor']['Tmax']['u']]
        w0 = max(GEN.qsi(self.spec['motor']['w0']), 2e-3 * fw)
        Tmax = max(GEN.qsi(self.spec['motor']['Tmax']), 2e-3 * ft)
        self.states = [None] * N
        self.info = [None] * N
        self.w_adv = [None] * N
        Lw, La, MT, D = self.L['angular speed'], self.L['angular acceleration'], self.M['torque'], tr.pwm
        for k in range(N):
            if k == 0:
                r0 = self.runs[0] if self.runs else None
                Din = r0['pwm_before'] if r0 else 1
                wl = GEN.qsi(self.spec['ic']['speed'])
                w_adv = wl * self.Gs
                self.w_adv[k] = wl
                st, info = RL.step(sl, Din, w_adv, None, {False}, w0)
                info['D'] = Din
            else:
                dt = self.dt[k]
                wl = Lw[k - 1] + La[k - 1] * dt
                self.w_adv[k] = wl
                w_adv = wl * self.Gs
                prev = {self.observed_held(k - 1)}
                if True in prev and self.L['torque'][k - 1] == 0:
                    prev = {True, False}          # all-zero instant that a free drivetrain produces too
                Tp = MT[k - 1]
                Din = D[k - 1]
                if k in self.run_start_pwm:
                    Din = self.run_start_pwm[k]      # the user may have changed the duty cycle between two runs
                st, info = RL.step(sl, Din, w_adv, Tp, prev, w0)
                info['D'] = Din
                if sl and not info['engage'] and not info['near'] and abs(Tp) < 1e-9 * Tmax and Din != 0:
                    st = st | prev               # release decision within rounding distance of zero torque
                    info['near'] = True
            self.states[k] = st
            self.info[k] = info


def sanitize(ctx, spec, tr, runs, case, prop):
    """always-on sanitizers: kinds of samples, series lengths vs time axis (when no run aborted), non-finite values"""
    aborted = any(r['exc'] for r in runs)
    if tr.bad_kind:
        ctx.violation('sanitizer:sample-kind', {'bad': tr.bad_kind[:5]}, case)
    if not aborted:
        for e in tr.els:
            for v, s in e['vars'].items():
                if len(s) != tr.n:
                    ctx.violation('sanitizer:series-length', {'element': e['name'], 'variable': v, 'len': len(s), 'instants': tr.n}, case)
                    return False
    return True


def check_c01(ctx, ana, case, judge=True):
    tr, nums, N = ana.tr, ana.nums, ana.N
    bad = 0
    for i in range(1, len(tr.els)):
        r_ref = nums['r'][i - 1]
        r_attr = tr.els[i]['ratio']
        if not (isinstance(r_attr, (int, float)) and not isinstance(r_attr, bool) and close(r_attr, r_ref, 1e-12)):
            if judge:
                ctx.violation('C01:ratio-attribute', {'element': tr.els[i]['name'], 'master_gear_ratio': r_attr, 'reference': r_ref}, case)
            return
        up, dn = tr.els[i - 1]['vars'], tr.els[i]['vars']
        for v in ('angular position', 'angular speed', 'angular acceleration'):
            su, sd = up[v], dn[v]
            for k in range(N):
                if not close(su[k], r_ref * sd[k]):
                    bad += 1
                    if judge and bad <= 3:
                        ctx.violation('C01:coupling', {'instant': k, 'pair': [tr.els[i - 1]['name'], tr.els[i]['name']], 'variable': v,
                                                        'upstream': su[k], 'ratio*downstream': r_ref * sd[k], 'ratio': r_ref,
                                                        'regime': ana.regime[k], 'held': ana.observed_held(k)}, case)
            ctx.count('pair_checks', N)
    for k in range(N):
        ctx.count('instants_' + ana.regime[k])
        if ana.observed_held(k) and nums['self_locking']:
            ctx.count('instants_held')
    ctx.count('instants', N)


def motor_consts(spec):
    m = spec['motor']
    q = GEN.qsi
    return q(m['Tmax']), q(m['w0']), (q(m['i0']) if m['i0'] is not None else None), (q(m['imax']) if m['imax'] is not None else None)


def check_c02(ctx, ana, case, judge=True):
    tr, nums, N, spec = ana.tr, ana.nums, ana.N, ana.spec
    Tmax, w0, i0, imax = motor_consts(spec)
    M = ana.M
    load = getattr(tr, 'load', None) or spec['load']          # the load function in force while this history was recorded

    def viol(name, w):
        if judge:
            ctx.violation('C02:' + name, w, case)
    # (a) motor characteristic at recorded speed and duty cycle
    for k in range(N):
        D, w = tr.pwm[k], M['angular speed'][k]
        exp = RM.torque(Tmax, w0, i0, imax, D, w)
        got = M['driving torque'][k]
        floor = 1e-9 * Tmax * (1 + abs(w / w0) / max(abs(D), 1e-3))
        if i0 is not None and abs(RM.dead_zone_margin(i0, imax, D)) < 1e-9:
            ctx.count('near_threshold')
            ok = close(got, exp, REL, floor) or abs(got) <= floor
        else:
            ok = close(got, exp, REL, floor)
        if not ok:
            viol('motor-law', {'instant': k, 'pwm': D, 'speed': w, 'driving_torque': got, 'reference': exp})
            break
        if D != 1:
            ctx.count('instants_nondefault_pwm')
    ctx.count('clause_a', N)
    # (b) driving, (d) load propagation
    for i in range(1, len(tr.els)):
        r, eta = nums['r'][i - 1], nums['eta'][i - 1]
        ea = tr.els[i]['eff']
        if not (isinstance(ea, (int, float)) and close(ea, eta, 1e-9, 1e-15)):
            viol('efficiency-attribute', {'element': tr.els[i]['name'], 'master_gear_efficiency': ea, 'reference': eta})
            return
        du, dd = tr.els[i - 1]['vars']['driving torque'], tr.els[i]['vars']['driving torque']
        lu, ld = tr.els[i - 1]['vars']['load torque'], tr.els[i]['vars']['load torque']
        for k in range(N):
            if not close(dd[k], du[k] * eta * r):
                viol('driving-propagation', {'instant': k, 'element': tr.els[i]['name'], 'driving': dd[k], 'reference': du[k] * eta * r, 'eta': eta, 'ratio': r})
                break
        for k in range(N):
            if eta * r != 0 and not close(lu[k], ld[k] / (eta * r)):
                viol('load-propagation', {'instant': k, 'element': tr.els[i - 1]['name'], 'load': lu[k], 'reference': ld[k] / (eta * r), 'eta': eta, 'ratio': r})
                break
        ctx.count('clause_bd', 2 * N)
    # (c) external load at the recorded state and time
    L = ana.L
    scale = abs(load['A']) + abs(load['S']) + abs(load['step_A']) + abs(load.get('P') or 0.0)
    loads_ = [load] * N
    for r_ in ana.runs or ():
        if r_.get('load'):
            for k in range(r_['n0'], min(r_['n1'], N)):
                loads_[k] = r_['load']          # the load function in force during THIS run (it may be replaced between two runs)
    for k in range(N):
        t, p, w = tr.time[k], L['angular position'][k], L['angular speed'][k]
        load = loads_[k]
        scale = abs(load['A']) + abs(load['S']) + abs(load['step_A']) + abs(load.get('P') or 0.0)
        exp = load_value(load, t, p, w)
        sc = scale + abs(load['B'] * w) + abs(load['C'] * p)
        if load.get('P'):
            sc += abs(load['P']) * 2 * math.pi * load['fp'] * abs(p) * 1e-6          # conditioning of sin(2 pi f theta) at large theta (argument rounding ~ 1e-16 theta)
        if not close(L['load torque'][k], exp, REL, 1e-9 * sc):
            # a step exactly at the instant: float time may sit on either side
            if load['step_t'] is not None and abs(t - load['step_t']) <= 1e-9 * max(abs(t), 1e-300):
                ctx.count('near_threshold')
                continue
            w_ = {'instant': k, 'load_torque': L['load torque'][k], 'reference': exp, 'time': t, 'position': p, 'speed': w,
                  'regime': ana.regime[k], 'held': ana.observed_held(k)}
            viol('external-load', w_)
            break
    ctx.count('clause_c', N)
    # (e) net = driving - load
    for e in tr.els:
        T, Dr, Lo = e['vars']['torque'], e['vars']['driving torque'], e['vars']['load torque']
        for k in range(N):
            if not close(T[k], Dr[k] - Lo[k], REL, 1e-12 * max(abs(Dr[k]), abs(Lo[k]))):
                viol('net-torque', {'instant': k, 'element': e['name'], 'torque': T[k], 'driving': Dr[k], 'load': Lo[k]})
                break
        ctx.count('clause_e', N)
    ctx.count('instants', N)


def check_c03(ctx, ana, case, judge=True):
    tr, nums, N = ana.tr, ana.nums, ana.N
    L = ana.L
    J = nums['J_eq']
    w, a, p, T = L['angular speed'], L['angular acceleration'], L['angular position'], L['torque']

    def viol(name, wit):
        if judge:
            ctx.violation('C03:' + name, wit, case)
    na = nw = 0
    for k in range(N):
        st = ana.states[k]
        if st == {False}:
            ctx.count('free_instants')
            if not close(a[k], T[k] / J, REL, 0.0):
                na += 1
                if na <= 2:
                    viol('acceleration', {'instant': k, 'acceleration': a[k], 'torque/J_eq': T[k] / J, 'J_eq': J, 'torque': T[k]})
        elif st == {True}:
            ctx.count('held_instants')
        else:
            ctx.count('near_threshold')
        if k == 0 or ana.dt[k] is None:
            continue
        # "between two consecutive instants dt apart": the step is the distance of the two *recorded* instants (equal to the
        # run's time step on the uniform grid; a run whose duration is not a multiple of its step is judged on what it recorded)
        dt = tr.time[k] - tr.time[k - 1]
        if abs(dt - ana.dt[k]) > 1e-9 * max(abs(tr.time[k]), ana.dt[k]):
            ctx.count('steps_differing_from_run_dt')
        w_adv = w[k - 1] + a[k - 1] * dt
        fl = 1e-9 * max(abs(w[k - 1]), abs(a[k - 1] * dt))
        clamped_ok = (True in st) and w[k] == 0
        if not (close(w[k], w_adv, REL, fl) or clamped_ok):
            nw += 1
            if nw <= 2:
                viol('speed-update', {'instant': k, 'speed': w[k], 'advanced': w_adv, 'prev_speed': w[k - 1], 'prev_acc': a[k - 1], 'dt': dt,
                                      'lock_states': sorted(st), 'regime': ana.regime[k]})
        exp_p = p[k - 1] + w_adv * dt
        flp = 1e-9 * max(abs(p[k - 1]), abs(w_adv * dt))
        if not close(p[k], exp_p, REL, flp):
            nw += 1
            if nw <= 2:
                viol('position-update', {'instant': k, 'position': p[k], 'reference': exp_p, 'prev_position': p[k - 1], 'advanced_speed': w_adv, 'dt': dt,
                                         'regime': ana.regime[k]})
        ctx.count('step_pairs')
        if ana.regime[k] == 'continued' and k in [r['n0'] for r in ana.runs]:
            ctx.count('continuation_boundaries')
    ctx.count('instants', N)


def check_c13(ctx, ana, case, judge=True, flag_log=None):
    """self-locking safety from public histories"""
    tr, nums, N = ana.tr, ana.nums, ana.N
    sl = nums['self_locking']
    if tr.self_locking is not sl:
        if judge:
            ctx.violation('C13:powertrain-flag', {'Powertrain.self_locking': tr.self_locking, 'reference': sl}, case)
        return
    Mw = ana.M['angular speed']
    MT = ana.M['torque']
    w0 = GEN.qsi(ana.spec['motor']['w0'])
    nb = 0

    def viol(name, wit):
        nonlocal nb
        nb += 1
        if judge and nb <= 3:
            ctx.violation('C13:' + name, wit, case)
    for k in range(N):
        st, info = ana.states[k], ana.info[k]
        held = ana.observed_held(k)
        D = info['D']
        if not sl:
            # never clamped: the recorded speed is the advanced speed (also C03); here: not zeroed from non-zero
            if k > 0 and ana.dt[k] is not None:
                wl = ana.w_adv[k]
                if wl != 0 and ana.L['angular speed'][k] == 0 and abs(wl) > 1e-9 * w0 / abs(ana.Gs):
                    viol('clamped-without-self-locking', {'instant': k, 'advanced_speed': wl})
            ctx.count('nonlocking_instants')
            continue
        ctx.count('selflocking_instants')
        # (i) sign of the motor speed against the duty cycle in force
        wm = Mw[k]
        if not info['near']:
            if (D == 0 and wm != 0) or (D > 0 and wm < 0) or (D < 0 and wm > 0):
                viol('driven-by-load', {'instant': k, 'duty_cycle_in_force': D, 'motor_speed': wm})
        # (ii) observable behaviour must agree with the reference machine
        if st == {True}:
            ctx.count('held_instants')
            if not held:
                viol('not-held', {'instant': k, 'expected': 'held', 'duty_cycle_in_force': D, 'advanced_speed': ana.w_adv[k],
                                  'speeds': [e['vars']['angular speed'][k] for e in tr.els], 'accs': [e['vars']['angular acceleration'][k] for e in tr.els],
                                  'engage': info['engage']})
            if k > 0 and ana.states[k - 1] == {True} and ana.dt[k] is not None:
                for e in tr.els:
                    if e['vars']['angular position'][k] != e['vars']['angular position'][k - 1]:
                        viol('position-moved-while-held', {'instant': k, 'element': e['name']})
                        break
            if info['engage'] and k > 0 and not ana.observed_held(k - 1):
                ctx.count('engagements')
            if k == 0 and info['engage']:
                ctx.count('engagements')
        elif st == {False}:
            ctx.count('free_instants')
            if k > 0 and ana.dt[k] is not None:
                wl = ana.w_adv[k]
                got = ana.L['angular speed'][k]
                if not close(got, wl, REL, 1e-9 * max(abs(ana.L['angular speed'][k - 1]), abs(wl))):
                    viol('clamped-while-free', {'instant': k, 'speed': got, 'advanced': wl, 'duty_cycle_in_force': D, 'release': info['release']})
                if info['release'] and ana.observed_held(k - 1):
                    ctx.count('releases')
                    if not (MT[k - 1] * D > 0):
                        viol('release-against-torque', {'instant': k, 'motor_torque_prev': MT[k - 1], 'duty_cycle': D})
                    # the same rule with the motor's net torque taken from the documented laws at the held state (zero speed,
                    # recorded duty cycle, the user's load at the recorded position and time) instead of the recorded torque
                    Tmax_, w0_, i0_, imax_ = motor_consts(ana.spec)
                    load_ = getattr(tr, 'load', None) or ana.spec['load']
                    Tl_ = load_value(load_, tr.time[k - 1], ana.L['angular position'][k - 1], ana.L['angular speed'][k - 1])
                    ref_net = RM.torque(Tmax_, w0_, i0_, imax_, tr.pwm[k - 1], Mw[k - 1]) - Tl_ / nums['E']          # E = product of ratio x efficiency along the chain
                    sc_ = abs(Tmax_) + abs(Tl_ / nums['E'])
                    ctx.count('releases_checked_against_reference_torque')
                    if ref_net * D < -1e-6 * sc_ and not (load_.get('step_t') is not None and abs(tr.time[k - 1] - load_['step_t']) <= 1e-9 * max(abs(tr.time[k - 1]), 1e-300)):
                        viol('release-against-reference-torque', {'instant': k, 'duty_cycle': D, 'recorded_motor_torque_prev': MT[k - 1], 'reference_motor_torque_prev': ref_net,
                                                                   'motor_speed_prev': Mw[k - 1], 'load_prev': Tl_})
            # a held-looking instant while free is only legitimate with zero net torque
            if held and ana.L['torque'][k] != 0 and k > 0:
                viol('held-while-free', {'instant': k, 'duty_cycle_in_force': D, 'motor_torque_prev': MT[k - 1], 'advanced_speed': ana.w_adv[k]})
        else:
            ctx.count('near_threshold')
        if k > 0 and tr.pwm[k] != tr.pwm[k - 1] and (tr.pwm[k] > 0) != (tr.pwm[k - 1] > 0):
            ctx.count('duty_sign_changes')
        if flag_log is not None and k < len(flag_log) and flag_log[k] is not None and st in ({True}, {False}):
            ctx.count('flag_compared')
            if flag_log[k] is not (True in st):
                ctx.observe('private lock flag disagrees with reference machine', {'instant': k})
    ctx.count('instants', N)
