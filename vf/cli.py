"""./check --setup | ./check <ID> [--tier quick|thorough] [--replay file]"""
import argparse
import importlib
import json
import os
import shutil
import subprocess
import sys
import tempfile
import time

from vf import core, deps

ROOT = core.ROOT
# evidence/replay files of mutant / seeded-change runs are not evidence: those runs redirect them
OUT = os.environ.get('VERIF_OUT') or ROOT
PY = '/venv/bin/python'


_pipe_closed = [False]


def print(*a, **k):          # noqa: A001 -- a reader that closes the pipe early (| head) must not change the verdict
    import builtins
    if _pipe_closed[0]:
        return
    try:
        builtins.print(*a, **k)
        sys.stdout.flush()
    except BrokenPipeError:
        _pipe_closed[0] = True
        try:
            sys.stdout = open(os.devnull, 'w')
        except OSError:
            pass


def child_env():
    env = dict(os.environ)
    env.update(PYTHONDONTWRITEBYTECODE='1', PYTHONHASHSEED='0', MPLBACKEND='Agg',
               OMP_NUM_THREADS='1', OPENBLAS_NUM_THREADS='1', MKL_NUM_THREADS='1')
    env['PYTHONPATH'] = core.repo_path() + os.pathsep + ROOT
    return env


def setup():
    ok = deps.ensure(verbose=True)
    r = subprocess.run([PY, '-B', '-c',
                        'from vf import core; g=core.use_tree(); import icontract, deal; print("gearpy from", g.__file__)'],
                       cwd=ROOT, env=child_env(), capture_output=True, text=True)
    sys.stdout.write(r.stdout)
    sys.stderr.write(r.stderr)
    return 0 if ok and r.returncode == 0 else 1


def tree_rev():
    try:
        r = subprocess.run(['git', '-C', core.repo_path(), 'rev-parse', '--short', 'HEAD'], capture_output=True, text=True)
        d = subprocess.run(['git', '-C', core.repo_path(), 'status', '--porcelain', '--untracked-files=no'], capture_output=True, text=True)
        return r.stdout.strip() + ('+dirty' if d.stdout.strip() else '')
    except Exception:
        return 'unknown'


def run_check(prop, tier, seed, nshards_override=None):
    t0 = time.time()
    deps.ensure()
    mod = importlib.import_module(f'vf.checks.{prop.lower()}')
    nshards = nshards_override or getattr(mod, 'NSHARDS', lambda t: 16)(tier)
    timeout = getattr(mod, 'TIMEOUT', lambda t: 900 if t == 'quick' else 3600)(tier)
    base = os.environ.get('VERIF_SCRATCH', '/var/tmp')
    work = tempfile.mkdtemp(prefix=f'vfp-{prop}-', dir=base)
    procs = []
    env = child_env()
    try:
        for i in range(nshards):
            out = os.path.join(work, f'{i}.json')
            err = open(os.path.join(work, f'{i}.err'), 'w')
            p = subprocess.Popen([PY, '-B', '-X', 'faulthandler', '-m', 'vf.shard', prop, tier, str(seed), str(i), str(nshards), out],
                                 cwd=ROOT, env=env, stdout=err, stderr=subprocess.STDOUT)
            procs.append((i, p, out, err))
        dumps, problems = [], []
        deadline = t0 + timeout
        for i, p, out, err in procs:
            try:
                p.wait(timeout=max(1, deadline - time.time()))
            except subprocess.TimeoutExpired:
                p.kill()
                p.wait()
                problems.append(f'shard {i} exceeded the {timeout}s watchdog (inconclusive, not a violation)')
                continue
            finally:
                err.close()
            if os.path.exists(out):
                with open(out) as f:
                    dumps.append(json.load(f))
            else:
                with open(err.name) as f:
                    tail = f.read()[-800:]
                problems.append(f'shard {i} died (rc={p.returncode}) without a result: {tail}')
    finally:
        for i, p, out, err in procs:
            if p.poll() is None:
                p.kill()
        shutil.rmtree(work, ignore_errors=True)
    merged = core.merge(dumps)
    merged['inconclusive'].extend(problems)
    return finish(mod, prop, tier, seed, merged, time.time() - t0, nshards)


def finish(mod, prop, tier, seed, merged, wall, nshards):
    c = merged['counters']
    floors = mod.floors(tier) if hasattr(mod, 'floors') else {}
    floor_report = {}
    for name, need in floors.items():
        if name.startswith('set:'):
            got = len(merged['sets'].get(name[4:], ()))
        else:
            got = c.get(name, 0)
        floor_report[name] = {'need': need, 'got': got, 'met': got >= need}
        if got < need:
            merged['inconclusive'].append(f'monitor starved: {name}={got} < floor {need}')
    # known findings: only *open* entries of the committed file suppress anything
    kfs = {k['id']: k for k in core.load_known_findings() if k.get('property') == prop}
    kf_lines, unlisted = [], []
    for kid, hit in sorted(merged['known'].items()):
        ent = kfs.get(kid)
        if ent is not None and ent.get('status') == 'open':
            kf_lines.append(ent['line'])
        else:
            unlisted.append((kid, hit))
    violations = list(merged['violations'])
    nviol = merged['n_violations']
    for kid, hit in unlisted:
        nviol += hit['count']
        violations.append({'monitor': f'classifier:{kid} (not an open known finding)', 'witness': hit['example'], 'case': hit.get('case')})
    # replay files
    replay_paths = []
    if violations:
        rd = os.path.join(OUT, 'replays', prop)
        os.makedirs(rd, exist_ok=True)
        for n, v in enumerate(violations):
            path = os.path.join(rd, f'{seed}-{tier}-{n}.json')
            with open(path, 'w') as f:
                json.dump({'property': prop, 'tier': tier, 'seed': seed, **v}, f, indent=1, sort_keys=True)
            replay_paths.append(path)
    distinct = len(merged['sets'].get('nontrivial', ()))
    cov = {
        'evaluations': int(c.get('evaluations', 0)),
        'distinct_nontrivial': int(distinct),
        'rule': mod.RULE,
        'samples': merged['samples'],
        'counters': {k: c[k] for k in sorted(c)},
        'distinct_sets': {k: len(v) for k, v in sorted(merged['sets'].items())},
        'maxima': merged['maxes'],
        'floors': floor_report,
        'known_findings_hit': {k: v['count'] for k, v in merged['known'].items()},
        'observations': merged['observations'],
        'inconclusive': merged['inconclusive'],
        'tree': core.repo_path(), 'tree_rev': tree_rev(), 'shards': nshards,
    }
    if hasattr(mod, 'finalize'):
        mod.finalize(cov, merged)
    ev = {'property_id': prop, 'tier': tier, 'seed': seed, 'level': getattr(mod, 'LEVEL', 'exploration'),
          'coverage': cov, 'assumptions': list(getattr(mod, 'ASSUMPTIONS', [])), 'wall_s': round(wall, 2),
          'violations': int(nviol)}
    os.makedirs(os.path.join(OUT, 'evidence'), exist_ok=True)
    with open(os.path.join(OUT, 'evidence', f'{prop}.json'), 'w') as f:
        json.dump(core.jsonable(ev), f, indent=1, sort_keys=True)
    # report
    print(f'{prop} tier={tier} seed={seed} tree={cov["tree"]}@{cov["tree_rev"]} wall={wall:.1f}s '
          f'evaluations={cov["evaluations"]} distinct_nontrivial={distinct}')
    keys = getattr(mod, 'HEADLINE', None) or sorted(c)[:14]
    print('  observed: ' + ', '.join(f'{k}={c.get(k, 0)}' for k in keys))
    for k, o in merged['observations'].items():
        print(f'  observation (not judged): {k} x{o["count"]}')
    for line in kf_lines:
        print(line)
    if violations:
        for v, path in zip(violations, replay_paths):
            print(f'VIOLATION property={prop} replay={path}')
            print(f'  monitor={v["monitor"]} witness={json.dumps(v["witness"])[:600]}')
        print(f'  total violating observations: {nviol}')
        return 1
    if merged['inconclusive']:
        for r in merged['inconclusive'][:8]:
            print(f'INCONCLUSIVE property={prop} reason={r}')
        return 2
    print(f'  held on everything observed ({cov["evaluations"]} evaluations)')
    return 0


def run_replay(prop, path):
    deps.ensure()
    with open(path) as f:
        rec = json.load(f)
    env = child_env()
    code = ('import sys, json, warnings; from vf import core; core.use_tree(); import importlib;'
            'warnings.simplefilter("ignore");'
            'rec=json.load(open(sys.argv[2])); mod=importlib.import_module("vf.checks."+sys.argv[1].lower());'
            'ctx=core.Ctx(sys.argv[1], rec.get("tier","quick"), int(rec.get("seed",0)), 0, 1, replaying=True);'
            'import tempfile, shutil; ctx.scratch=tempfile.mkdtemp(prefix="vf-replay-", dir="/var/tmp");\n'
            'try:\n mod.replay(ctx, rec["case"])\nfinally:\n shutil.rmtree(ctx.scratch, ignore_errors=True)\n'
            'd=ctx.dump(); print(json.dumps({"v":d["violations"],"n":d["n_violations"],"k":d["known"]}))')
    r = subprocess.run([PY, '-B', '-c', code, prop, path], cwd=ROOT, env=env, capture_output=True, text=True, timeout=3600)
    if r.returncode != 0:
        print(r.stdout[-2000:], r.stderr[-3000:])
        print(f'INCONCLUSIVE property={prop} reason=replay crashed')
        return 2
    d = json.loads(r.stdout.strip().splitlines()[-1])
    kfs = {k['id']: k for k in core.load_known_findings() if k.get('property') == prop and k.get('status') == 'open'}
    for kid in d['k']:
        if kid in kfs:
            print(kfs[kid]['line'])
        else:
            d['n'] += 1
            d['v'].append({'monitor': f'classifier:{kid}', 'witness': d['k'][kid]['example']})
    if d['n']:
        print(f'VIOLATION property={prop} replay={path}')
        for v in d['v'][:5]:
            print(f'  monitor={v["monitor"]} witness={json.dumps(v["witness"])[:800]}')
        return 1
    print(f'{prop}: replay of {path} shows no violation on tree {core.repo_path()}')
    return 0


def main(argv=None):
    ap = argparse.ArgumentParser()
    ap.add_argument('prop', nargs='?')
    ap.add_argument('--setup', action='store_true')
    ap.add_argument('--tier', default=os.environ.get('VERIF_TIER', 'quick'), choices=['quick', 'thorough'])
    ap.add_argument('--replay')
    ap.add_argument('--shards', type=int)
    a = ap.parse_args(argv)
    if a.setup:
        return setup()
    if not a.prop:
        ap.error('property id required')
    seed = int(os.environ.get('VERIF_SEED', '0') or 0)
    if a.replay:
        return run_replay(a.prop.upper(), a.replay)
    return run_check(a.prop.upper(), a.tier, seed, a.shards)


def guarded():
    try:
        return main()
    except SystemExit:
        raise
    except BaseException as ex:          # a harness failure is never a verdict about the tree
        import traceback
        traceback.print_exc()
        print(f'INCONCLUSIVE reason=harness failure: {type(ex).__name__}: {ex}')
        return 2


if __name__ == '__main__':
    sys.exit(guarded())
