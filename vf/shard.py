"""Child process: python -m vf.shard <PROP> <tier> <seed> <shard> <nshards> <outfile>"""
import faulthandler
import importlib
import json
import os
import shutil
import sys
import tempfile
import traceback
import warnings


def main():
    prop, tier, seed, shard, nshards, out = sys.argv[1:7]
    faulthandler.enable()
    try:
        # a changed tree may loop for ever while allocating (e.g. a cyclic chain followed by Powertrain()): the address space of a
        # shard is capped so that such a run ends in MemoryError (a crash = inconclusive) long before it threatens the machine
        import resource
        lim = int(float(os.environ.get('VERIF_SHARD_MEM_GB', '4')) * 2 ** 30)
        resource.setrlimit(resource.RLIMIT_AS, (lim, lim))
    except Exception:
        pass
    from vf import core
    ctx = core.Ctx(prop, tier, int(seed), int(shard), int(nshards))
    base = os.environ.get('VERIF_SCRATCH', '/var/tmp')
    ctx.scratch = tempfile.mkdtemp(prefix=f'vf-{prop}-{shard}-', dir=base)
    os.environ['MPLCONFIGDIR'] = ctx.scratch
    status = 'ok'
    try:
        try:
            core.use_tree()
        except Exception:
            ctx.starve('tree under test cannot be imported: ' + traceback.format_exc(limit=3)[-600:])
            status = 'noimport'
        else:
            mod = importlib.import_module(f'vf.checks.{prop.lower()}')
            warnings.simplefilter('ignore')
            mod.shard(ctx)
    except Exception:
        status = 'crash'
        ctx.starve('harness crashed: ' + traceback.format_exc()[-1500:])
    finally:
        shutil.rmtree(ctx.scratch, ignore_errors=True)
    d = ctx.dump()
    d['status'] = status
    with open(out, 'w') as f:
        json.dump(d, f)


if __name__ == '__main__':
    main()
