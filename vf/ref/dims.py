"""Dimension vectors (kg, m, s, A) of the 13 kinds; the radian is dimensionless. No gearpy import."""
VEC = {
    'AngularPosition': (0, 0, 0, 0), 'Angle': (0, 0, 0, 0),
    'AngularSpeed': (0, 0, -1, 0), 'AngularAcceleration': (0, 0, -2, 0),
    'InertiaMoment': (1, 2, 0, 0), 'Torque': (1, 2, -2, 0),
    'Time': (0, 0, 1, 0), 'TimeInterval': (0, 0, 1, 0),
    'Length': (0, 1, 0, 0), 'Surface': (0, 2, 0, 0),
    'Force': (1, 1, -2, 0), 'Stress': (1, -1, -2, 0), 'Current': (0, 0, 0, 1),
}
FAMILY = {k: k for k in VEC}
FAMILY.update({'Angle': 'AngularPosition', 'TimeInterval': 'Time'})
ZERO = (0, 0, 0, 0)


def add(v, w):
    return tuple(a + b for a, b in zip(v, w))


def sub(v, w):
    return tuple(a - b for a, b in zip(v, w))


def kinds_with(vec):
    return [k for k, v in VEC.items() if v == vec]
