"""Independent SI table for the 13 quantity kinds (no import of gearpy).

Every unit is (Fraction q, int p) meaning q * pi**p SI units, written from the
SI / technical definitions, not copied from the library:
  1 deg = pi/180 rad, 1 arcmin = 1/60 deg, 1 arcsec = 1/3600 deg, 1 rot = 2 pi rad,
  1 rpm = 2 pi / 60 rad/s, 1 kgf = 9.80665 N (exact by definition), ...
"""
from fractions import Fraction as F
import math

G = F(980665, 100000)          # standard gravity, exact

_ANG = {'rad': (F(1), 0), 'deg': (F(1, 180), 1), 'arcmin': (F(1, 180 * 60), 1),
        'arcsec': (F(1, 180 * 3600), 1), 'rot': (F(2), 1)}
_TIME = {'sec': (F(1), 0), 'min': (F(60), 0), 'hour': (F(3600), 0), 'ms': (F(1, 1000), 0)}
_LEN = {'m': F(1), 'dm': F(1, 10), 'cm': F(1, 100), 'mm': F(1, 1000)}


def _torque():
    t = {}
    for pre, pf in (('', F(1)), ('m', F(1, 1000)), ('k', F(1000))):
        for ln, lf in _LEN.items():
            if pre == '' and ln != 'm':
                continue
            t[f'{pre}N{ln}'] = (pf * lf, 0)
    for pre, pf in (('kgf', G), ('gf', G / 1000)):
        for ln, lf in _LEN.items():
            t[f'{pre}{ln}'] = (pf * lf, 0)
    return t


def _inertia():
    t = {}
    for m, mf in (('kg', F(1)), ('g', F(1, 1000))):
        for ln, lf in _LEN.items():
            t[f'{m}{ln}^2'] = (mf * lf * lf, 0)
    return t


TABLE = {
    'AngularPosition': dict(_ANG),
    'Angle': dict(_ANG),
    'AngularSpeed': {
        'rad/s': (F(1), 0), 'rad/min': (F(1, 60), 0), 'rad/h': (F(1, 3600), 0),
        'deg/s': (F(1, 180), 1), 'deg/min': (F(1, 180 * 60), 1), 'deg/h': (F(1, 180 * 3600), 1),
        'rps': (F(2), 1), 'rpm': (F(2, 60), 1), 'rph': (F(2, 3600), 1)},
    'AngularAcceleration': {'rad/s^2': (F(1), 0), 'deg/s^2': (F(1, 180), 1), 'rot/s^2': (F(2), 1)},
    'InertiaMoment': _inertia(),
    'Torque': _torque(),
    'Time': dict(_TIME),
    'TimeInterval': dict(_TIME),
    'Length': {k: (v, 0) for k, v in _LEN.items()},
    'Surface': {f'{k}^2': (v * v, 0) for k, v in _LEN.items()},
    'Force': {'N': (F(1), 0), 'mN': (F(1, 1000), 0), 'kN': (F(1000), 0), 'kgf': (G, 0), 'gf': (G / 1000, 0)},
    'Stress': {'Pa': (F(1), 0), 'kPa': (F(10 ** 3), 0), 'MPa': (F(10 ** 6), 0), 'GPa': (F(10 ** 9), 0)},
    'Current': {'A': (F(1), 0), 'mA': (F(1, 10 ** 3), 0), 'uA': (F(1, 10 ** 6), 0)},
}
KINDS = list(TABLE)
SI_UNIT = {k: next(u for u, (q, p) in t.items() if q == 1 and p == 0) for k, t in TABLE.items()}
FAMILY = {'Angle': 'AngularPosition', 'TimeInterval': 'Time'}
# sign constraints: '>0', '>=0' or None
SIGN = {'Length': '>0', 'Surface': '>0', 'InertiaMoment': '>0', 'TimeInterval': '>0', 'Angle': '>=0'}
PI = math.pi


def factor(kind, unit):
    q, p = TABLE[kind][unit]
    return float(q) * PI ** p if p else float(q)


FACT = {k: {u: factor(k, u) for u in t} for k, t in TABLE.items()}


def units(kind):
    return list(TABLE[kind])


def to_si(kind, value, unit):
    return value * FACT[kind][unit]


def convert(kind, value, frm, to):
    """Best float approximation of value[frm] expressed in `to` (exact rational
    arithmetic on the decimal part; pi enters at most once)."""
    q1, p1 = TABLE[kind][frm]
    q2, p2 = TABLE[kind][to]
    if value != value or value in (float('inf'), float('-inf')):
        return value
    r = F(value) * q1 / q2
    dp = p1 - p2
    try:
        x = float(r)
    except OverflowError:
        return math.copysign(float('inf'), r)
    if dp:
        x = x * PI ** dp
    return x


def from_si(kind, sival, unit):
    return convert(kind, sival, SI_UNIT[kind], unit)


def kind_of(q):
    return type(q).__name__


def si(q):
    """SI magnitude of a gearpy quantity (duck-typed: .value, .unit, class name)."""
    return q.value * FACT[type(q).__name__][q.unit]


def ulp(x):
    return math.ulp(x) if math.isfinite(x) else float('inf')


def ulps_apart(a, b):
    if a == b:
        return 0.0
    if not (math.isfinite(a) and math.isfinite(b)):
        return float('inf')
    return abs(a - b) / max(math.ulp(a), math.ulp(b))


def close(a, b, rel=1e-9, floor=0.0):
    if a == b:
        return True
    if not (math.isfinite(a) and math.isfinite(b)):
        return False
    return abs(a - b) <= rel * max(abs(a), abs(b)) + floor
