"""Reference DC motor characteristic, written from the documentation (SI floats, no gearpy import).

  Tmax(D) = Tmax * (|D| imax - i0) / (imax - i0) * sgn(D)
  T(D, w) = Tmax(D) * (1 - w / (D w0))              outside the dead zone
  T       = 0                                        for |D| <= i0 / imax
  T       = Tmax * (1 - w / w0)                      for a motor without current data
  i(D, w) = (|D| imax - i0) * T / Tmax(D) * sgn(D)... written out per branch below
  i       = D imax                                   inside the dead zone
"""


def dead_zone_margin(i0, imax, D):
    """relative distance of |D| from the dead-zone boundary i0/imax (positive = outside)"""
    b = i0 / imax
    return (abs(D) - b) / max(abs(D), b, 1e-300)


def tmax_d(Tmax, i0, imax, D):
    if D > 0:
        return Tmax * (D * imax - i0) / (imax - i0)
    return Tmax * (D * imax + i0) / (imax - i0)


def torque(Tmax, w0, i0, imax, D, w):
    if i0 is None or imax is None:
        return Tmax * (1 - w / w0)
    if abs(D) <= i0 / imax:
        return 0.0
    return tmax_d(Tmax, i0, imax, D) * (1 - w / (D * w0))


def current(Tmax, w0, i0, imax, D, w):
    if abs(D) <= i0 / imax:
        return D * imax
    TD = tmax_d(Tmax, i0, imax, D)
    T = TD * (1 - w / (D * w0))
    if D > 0:
        return (D * imax - i0) * (T / TD) + i0
    return (D * imax + i0) * (T / TD) - i0


def current_from_speed(i0, imax, w0, D, w):
    """same law with T/Tmax(D) = 1 - w/(D w0) substituted (used by the C15 bisection oracle)"""
    if abs(D) <= i0 / imax:
        return D * imax
    x = 1 - w / (D * w0)
    if D > 0:
        return (D * imax - i0) * x + i0
    return (D * imax + i0) * x - i0
