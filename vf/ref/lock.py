"""Reference lock / unlock machine of a self-locking powertrain, driven by public histories only.

One-step rule evaluated at instant k >= 1 from the previous *recorded* instant:
    D     = duty cycle in force  (pwm recorded at k-1; for the first instant of a fresh run the duty cycle
            read just before the run)
    w_adv = advanced speed of the motor = (w_last[k-1] + a_last[k-1] * dt) * G
    T     = motor net torque recorded at k-1
    engage  iff self_locking and (D == 0 or D * w_adv < 0)
    release iff not engage and T * D > 0
    else keep the state observed at k-1
Returns per instant a set of admissible states {True (held), False (free)}.
"""


def sign(x):
    return (x > 0) - (x < 0)


def step(self_locking, D, w_adv, T_prev, prev_states, w0_scale=1.0):
    """prev_states: set of admissible previous states. returns (states, info)"""
    info = {'engage': False, 'release': False, 'near': False}
    if not self_locking:
        return {False}, info
    if w_adv != 0 and abs(w_adv) < 1e-9 * w0_scale and D != 0:
        info['near'] = True
        return {True, False}, info
    if D == 0 or D * w_adv < 0:
        info['engage'] = True
        return {True}, info
    if T_prev is not None and T_prev * D > 0:
        info['release'] = True
        return {False}, info
    return set(prev_states), info
