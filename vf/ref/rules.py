"""Reference models of duty-cycle arbitration (C14) and of the four built-in rules (C15). No gearpy import."""
import math
from . import motor as RM


def arbitrate(proposals):
    """proposals: list of values or None -> ('conflict',) | ('pwm', value)"""
    vals = [p for p in proposals if p is not None]
    if len(vals) >= 2:
        return ('conflict',)
    if len(vals) == 1:
        return ('pwm', min(max(vals[0], -1), 1))
    return ('pwm', 1)


# --- C15 ---------------------------------------------------------------------------------------------

def constant_pwm_window(t, start, duration):
    """margin-aware: returns (active, near) for start <= t <= start + duration"""
    end = start + duration
    sc = max(abs(t), abs(start), abs(end), 1e-300)
    near = abs(t - start) <= 1e-9 * sc or abs(t - end) <= 1e-9 * sc
    return (start <= t <= end), near


def reach_start(theta_t, theta_b, T_load, Tmax, eta_total):
    """theta_s = theta_t - theta_b + (T_l / Tmax) * theta_b / eta_t"""
    return theta_t - theta_b + (T_load / Tmax) * theta_b / eta_total


def reach_value(theta, theta_s, theta_b):
    return 1 - (theta - theta_s) / theta_b


def pwm_min_candidate(T_load, Tmax, eta_total, i0, imax):
    """D_min^c = (1/eta_t) (T_l/Tmax) (imax - i0)/imax + i0/imax"""
    return (1 / eta_total) * (T_load / Tmax) * ((imax - i0) / imax) + i0 / imax


def start_prop_value(theta, theta_t, pwm_min):
    return (1 - pwm_min) * theta / theta_t + pwm_min


def limit_current_duty(i0, imax, w0, w, i_lim):
    """duty cycle at which the reference current law yields i_lim at speed w: solved by bisection on the reference law
    over the positive branch (the rule is a start-up rule: it is documented for the forward direction)."""
    f = lambda D: RM.current_from_speed(i0, imax, w0, D, w) - i_lim
    lo = max(i0 / imax, 1e-12) * (1 + 1e-12) + 1e-15
    hi = 50.0
    flo, fhi = f(lo), f(hi)
    if flo == 0:
        return lo
    if flo * fhi > 0:
        return None
    for _ in range(200):
        mid = 0.5 * (lo + hi)
        fm = f(mid)
        if fm == 0:
            return mid
        if (fm > 0) == (fhi > 0):
            hi, fhi = mid, fm
        else:
            lo, flo = mid, fm
    return 0.5 * (lo + hi)
