"""Reference values of a declared relation, from the documentation (no gearpy import).

ratio     : slave teeth / master teeth; wheel teeth / worm starts (worm drives) or its inverse; 1 for a joint
efficiency: given value for gear matings; worm drives wheel: (cos a - f tan b)/(cos a + f/tan b);
            wheel drives worm: (cos a - f/tan b)/(cos a + f tan b); 1 for joints
self-lock : f > cos(a) * tan(b)   (a pressure angle, b helix angle of the worm)
"""
import math
from . import si as SI


def qsi(q):
    return q['v'] * SI.FACT[q['k']][q['u']]


def worm_efficiency(alpha, beta, f, worm_is_master):
    ca, tb = math.cos(alpha), math.tan(beta)
    if worm_is_master:
        return (ca - f * tb) / (ca + f / tb)
    return (ca - f / tb) / (ca + f * tb)


def self_locking_margin(alpha, beta, f):
    """(f - crit) relative margin; >0 means self-locking"""
    crit = math.cos(alpha) * math.tan(beta)
    return (f - crit) / max(abs(f), abs(crit), 1e-300), crit


def relation_values(master, slave):
    """(ratio, efficiency, self_locking) for spec dicts master -> slave (slave['rel'] describes the link)"""
    rel = slave['rel']
    if rel['type'] == 'joint':
        return 1.0, 1.0, False
    if rel['type'] == 'gear':
        return slave['z'] / master['z'], rel['eff'], False
    f = rel['f']
    if rel.get('f_is_threshold'):
        # the friction coefficient IS the threshold, computed by the user from the worm's own angle objects
        # (pressure_angle.cos() * helix_angle.tan()): the documented condition is strict, so the mating is not self-locking
        if master['type'] == 'wormgear':
            return slave['z'] / master['n_starts'], worm_efficiency(qsi(master['pa']), qsi(master['helix']), f, True), False
        return slave['n_starts'] / master['z'], worm_efficiency(qsi(master['pa']), qsi(master['helix']), f, False), False
    if master['type'] == 'wormgear':
        a, b = qsi(master['pa']), qsi(master['helix'])
        r = slave['z'] / master['n_starts']
        return r, worm_efficiency(a, b, f, True), f > math.cos(a) * math.tan(b)
    a, b = qsi(master['pa']), qsi(master['helix'])
    r = slave['n_starts'] / master['z']
    aw, bw = qsi(slave['pa']), qsi(slave['helix'])
    return r, worm_efficiency(a, b, f, False), f > math.cos(aw) * math.tan(bw)
