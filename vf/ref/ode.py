"""Closed-form solution of the linear drivetrain model  w' = a - k w  (output element), theta' = w."""
import math


def speed(t, w_init, a, k):
    winf = a / k
    return winf + (w_init - winf) * math.exp(-k * t)


def position(t, th0, w_init, a, k):
    winf = a / k
    return th0 + winf * t + (w_init - winf) * (-math.expm1(-k * t)) / k
