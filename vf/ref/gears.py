"""Reference gear force / stress formulas with hard-coded copies of the two tables (no gearpy import).

Lewis table and worm table copied from the documentation data as of the pinned commit; an edit of a table entry in the
repository is a disagreement with this copy, not a silently shared constant."""
import math

LEWIS = [(10, 0.201), (11, 0.226), (12, 0.245), (13, 0.264), (14, 0.276), (15, 0.289), (16, 0.295), (17, 0.302), (18, 0.308), (19, 0.314),
         (20, 0.320), (21, 0.325), (22, 0.330), (24, 0.337), (26, 0.344), (28, 0.352), (30, 0.358), (32, 0.364), (34, 0.370), (36, 0.377),
         (38, 0.383), (40, 0.389), (43, 0.394), (45, 0.399), (50, 0.408), (55, 0.415), (60, 0.421), (65, 0.425), (70, 0.429), (75, 0.433),
         (80, 0.436), (90, 0.442), (100, 0.446), (150, 0.458), (200, 0.463), (300, 0.471), (400, 0.478), (500, 0.484)]
WORM = {14.5: (16.0, 0.100), 20.0: (25.0, 0.125), 25.0: (35.0, 0.150), 30.0: (45.0, 0.175)}     # pressure angle: (max helix, Lewis factor)
ALPHA = math.radians(20.0)
HERTZ = 0.262922


def lewis(z):
    """linear interpolation over the tabulated teeth numbers, clamped at both ends"""
    if z <= LEWIS[0][0]:
        return LEWIS[0][1]
    if z >= LEWIS[-1][0]:
        return LEWIS[-1][1]
    for (z0, y0), (z1, y1) in zip(LEWIS, LEWIS[1:]):
        if z0 <= z <= z1:
            return y0 + (y1 - y0) * (z - z0) / (z1 - z0)


def transverse_pressure_angle(beta):
    return math.atan(math.tan(ALPHA) / math.cos(beta))


def virtual_teeth(z, beta):
    at = transverse_pressure_angle(beta)
    bb = math.atan(math.tan(beta) * math.cos(at))      # standard base-helix relation (the docstring's cos*cos is a typo: it gives beta_b != 0 at beta = 0)
    return z / (math.cos(bb) ** 2 * math.cos(beta))


def lewis_helical(z, beta):
    return lewis(virtual_teeth(z, beta))


def tangential_force(torque, diameter):
    return abs(torque) / (diameter / 2)


def bending(Ft, m, b, Y):
    return Ft / (m * b * Y)


def contact(Ft, b, D1, D2, E1, E2, beta=0.0):
    at = transverse_pressure_angle(beta)
    return HERTZ * math.sqrt(4 * Ft * math.cos(beta) / (b * math.cos(at) * math.sin(at)) * (1 / D1 + 1 / D2) * (E1 * E2 / (E1 + E2)))


def worm_wheel_bending(Ft, d_worm, beta_worm, n_teeth, b, pa_deg):
    pn = math.pi * d_worm * math.sin(beta_worm) / n_teeth
    beff = min(b, 0.67 * d_worm)
    return Ft / (pn * beff * WORM[pa_deg][1])
