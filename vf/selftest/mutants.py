"""Mutant corpus: (name, [properties whose quick check must catch it], file, old text, new text)."""
S = 'gearpy/solver.py'
MUTANTS = [
    ('C01-speed-ratio-inverted', ['C01'], S,
     "            gear_ratio*self.__powertrain.elements[i + 1].angular_speed",
     "            (1/gear_ratio)*self.__powertrain.elements[i + 1].angular_speed"),
    ('C01-skip-motor', ['C01'], S,
     "for i in range(len(self.__powertrain.elements) - 2, -1, -1):\n            gear_ratio = self.__powertrain.elements[i + 1].master_gear_ratio\n            self._transmit_angular_position",
     "for i in range(len(self.__powertrain.elements) - 2, 0, -1):\n            gear_ratio = self.__powertrain.elements[i + 1].master_gear_ratio\n            self._transmit_angular_position"),
    ('C01-acc-not-transmitted-to-motor', ['C01'], S,
     "for i in range(len(self.__powertrain.elements) - 2, -1, -1):\n            gear_ratio = self.__powertrain.elements[i + 1].master_gear_ratio\n            self._transmit_angular_acceleration",
     "for i in range(len(self.__powertrain.elements) - 2, 0, -1):\n            gear_ratio = self.__powertrain.elements[i + 1].master_gear_ratio\n            self._transmit_angular_acceleration"),
    ('C01-locked-zeroes-motor-only', ['C01', 'C13'], S,
     "        for element in self.__powertrain.elements:\n            element.angular_speed = NULL_ANGULAR_SPEED",
     "        for element in self.__powertrain.elements[:1]:\n            element.angular_speed = NULL_ANGULAR_SPEED"),
    ('C01-ratio-master-over-slave', ['C01', 'C10'], 'gearpy/utils/relations.py',
     "slave.master_gear_ratio = slave.n_teeth/master.n_teeth", "slave.master_gear_ratio = master.n_teeth/slave.n_teeth"),
]
MUTANTS += [
    ('C02-divide-by-efficiency', ['C02'], S,
     "                self.__powertrain.elements[i - 1].driving_torque * \\\n                self.__powertrain.elements[i].master_gear_efficiency * \\",
     "                self.__powertrain.elements[i - 1].driving_torque / \\\n                self.__powertrain.elements[i].master_gear_efficiency * \\"),
    ('C02-load-drops-efficiency', ['C02'], S,
     "                self.__powertrain.elements[i].load_torque / \\\n                self.__powertrain.elements[i].master_gear_efficiency / \\\n",
     "                self.__powertrain.elements[i].load_torque / \\\n"),
    ('C02-load-stale-time', ['C02'], S, "time=self.__powertrain.time[-1],", "time=self.__powertrain.time[max(len(self.__powertrain.time) - 2, 0)],"),
    ('C02-load-before-clamp', ['C02'], S,
     "        self._compute_angular_position_and_speed()\n        self._check_powertrain_is_locked()\n        if self.__powertrain_is_locked:\n            self._compute_locked_powertrain_angular_speed_and_acceleration()\n        self._compute_load_torque()",
     "        self._compute_angular_position_and_speed()\n        self._compute_load_torque()\n        self._check_powertrain_is_locked()\n        if self.__powertrain_is_locked:\n            self._compute_locked_powertrain_angular_speed_and_acceleration()"),
    ('C02-driving-before-control', ['C02'], S,
     "        self._compute_motor_control(motor_control=motor_control)\n        self._compute_driving_torque()",
     "        self._compute_driving_torque()\n        self._compute_motor_control(motor_control=motor_control)"),
    ('C02-net-is-sum', ['C02'], S, "element.torque = element.driving_torque - element.load_torque", "element.torque = element.driving_torque + element.load_torque"),
    ('C03-ratio-squared', ['C03'], S, "self.__powertrain_inertia_moment *= element.master_gear_ratio", "self.__powertrain_inertia_moment *= element.master_gear_ratio**2"),
    ('C03-inertia-omits-last', ['C03'], S, "for element in self.__powertrain.elements[1:]:\n            self.__powertrain_inertia_moment *=", "for element in self.__powertrain.elements[1:-1]:\n            self.__powertrain_inertia_moment *="),
    ('C03-position-before-speed', ['C03'], S,
     "        self.__powertrain.elements[-1].angular_speed += \\\n            self.__powertrain.elements[-1].angular_acceleration * \\\n            time_discretization\n        self.__powertrain.elements[-1].angular_position += \\\n            self.__powertrain.elements[-1].angular_speed*time_discretization",
     "        self.__powertrain.elements[-1].angular_position += \\\n            self.__powertrain.elements[-1].angular_speed*time_discretization\n        self.__powertrain.elements[-1].angular_speed += \\\n            self.__powertrain.elements[-1].angular_acceleration * \\\n            time_discretization"),
    ('C03-dt-doubled-for-position', ['C03'], S, "self.__powertrain.elements[-1].angular_speed*time_discretization", "self.__powertrain.elements[-1].angular_speed*time_discretization*2"),
    ('C13-engage-ignores-zero-pwm', ['C13'], S, "            motor.pwm == 0 or\n", ""),
    ('C13-release-without-torque-test', ['C13'], S,
     "            if (motor.torque > NULL_TORQUE and motor.pwm > 0) or \\\n                    (motor.torque < NULL_TORQUE and motor.pwm < 0):",
     "            if (motor.pwm > 0) or \\\n                    (motor.pwm < 0):"),
    ('C13-clamp-without-self-locking', ['C13'], S, "if self.__powertrain.self_locking and (", "if (True or self.__powertrain.self_locking) and ("),
    ('C13-acceleration-while-held', ['C13'], S, "        if not self.__powertrain_is_locked:\n            self._compute_angular_acceleration()", "        self._compute_angular_acceleration()"),
    ('C13-criterion-ge (differs only at exact equality in the library own rounding: not required)', [], 'gearpy/utils/relations.py', "friction_coefficient > worm_gear.pressure_angle.cos()", "friction_coefficient >= worm_gear.pressure_angle.cos()"),
    ('C13-criterion-sin', ['C13', 'C10'], 'gearpy/utils/relations.py', "        worm_gear.helix_angle.tan()\n\n    if efficiency", "        worm_gear.helix_angle.sin()\n\n    if efficiency"),
    ('C12-revert-D3-lock-flag', ['C12'], S, "            self.__powertrain_is_locked = False\n            self.__powertrain.update_time(initial_time)", "            self.__powertrain.update_time(initial_time)"),
]
U = 'gearpy/units/units.py'
UB = 'gearpy/units/unit_base.py'
M = 'gearpy/mechanical_objects/dc_motor.py'
MUTANTS += [
    ('C05-table-mNcm', ['C05'], U, "'mNcm': 1e-5", "'mNcm': 1e-4"),
    ('C05-rph-one-factor', ['C05'], U, "'rph': 2*pi/60/60", "'rph': 2*pi/60"),
    ('C05-kgf-constant', ['C05'], U, "'kgf': 9.80665,", "'kgf': 9.80655,"),
    ('C05-ge-strict-same-unit', ['C05'], UB, "            return self.value >= other.value", "            return self.value > other.value"),
    ('C05-lt-cross-unit-sign', ['C05'], UB, "            ).value < -COMPARISON_TOLERANCE", "            ).value < COMPARISON_TOLERANCE"),
    ('C05-inplace-forgets-unit', ['C05'], U, "            self.__value = target_value\n            self.__unit = target_unit\n            return self", "            self.__value = target_value\n            return self"),
    ('C06-torque-over-length-is-torque', ['C06'], U, "            return Force(\n                value=self.to('Nm').value/other.to('m').value,\n                unit='N'\n            )",
     "            return Torque(\n                value=self.to('Nm').value/other.to('m').value,\n                unit='Nm'\n            )"),
    ('C06-speed-times-time-raw-value', ['C06'], U,
     "        if isinstance(other, Time):\n            return AngularPosition(\n                value=self.to('rad/s').value*other.to('sec').value,\n                unit='rad'\n            )\n        else:\n            return AngularSpeed(value=self.__value*other, unit=self.__unit)\n\n    def __rmul__",
     "        if isinstance(other, Time):\n            return AngularPosition(\n                value=self.to('rad/s').value*other.value,\n                unit='rad'\n            )\n        else:\n            return AngularSpeed(value=self.__value*other, unit=self.__unit)\n\n    def __rmul__"),
    ('C06-base-sub-adds', ['C06'], UB, "                value=self.value - other.to(self.unit).value,\n                unit=self.unit\n            )\n        except ValueError:",
     "                value=self.value + other.to(self.unit).value,\n                unit=self.unit\n            )\n        except ValueError:"),
    ('C06-force-over-surface-label', ['C06'], U, "                value=self.to('N').value/other.to('m^2').value,\n                unit='Pa'", "                value=self.to('N').value/other.to('m^2').value,\n                unit='kPa'"),
    ('C08-tmaxd-sign', ['C08', 'C02'], M,
     "                    (self.pwm*self.maximum_electric_current -\n                        self.no_load_electric_current) /\n                    (self.maximum_electric_current -\n                        self.no_load_electric_current)\n                )\n            no_load_speed = self.pwm*self.no_load_speed\n        else:",
     "                    (self.pwm*self.maximum_electric_current +\n                        self.no_load_electric_current) /\n                    (self.maximum_electric_current -\n                        self.no_load_electric_current)\n                )\n            no_load_speed = self.pwm*self.no_load_speed\n        else:"),
    ('C08-dead-zone-strict', ['C08'], M, "        if abs(self.pwm) <= pwm_min:\n            self.driving_torque = Torque(0", "        if abs(self.pwm) < pwm_min:\n            self.driving_torque = Torque(0"),
    ('C08-threshold-inverted', ['C08'], M,
     "        pwm_min = self.no_load_electric_current/self.maximum_electric_current \\\n            if self.electric_current_is_computable else 0",
     "        pwm_min = self.maximum_electric_current/self.no_load_electric_current \\\n            if self.electric_current_is_computable else 0"),
    ('C08-negative-branch-current-offset', ['C08'], M, "            no_load_electric_current = -self.no_load_electric_current", "            no_load_electric_current = self.no_load_electric_current"),
    ('C08-revert-D11', ['C08'], M, "        if abs(self.pwm) <= pwm_min or \\\n                abs(maximum_electric_current) <= self.no_load_electric_current:", "        if abs(self.pwm) <= pwm_min:"),
]
MUTANTS += [
    ('C11-revert-D1-arange', ['C11'], S,
     "        n_steps = int(np.ceil(\n            np.round(simulation_time/time_discretization, decimals=9)\n        ))\n        for i in range(1, n_steps + 1):\n            k = initial_time.value + i*time_discretization.value\n",
     "        for k in np.arange(\n            initial_time.value + time_discretization.value,\n            (initial_time + simulation_time + time_discretization).value,\n            time_discretization.value\n        ):\n"),
    ('C11-revert-D2-unit-mix', ['C11', 'C12'], S, "            initial_time = self.__powertrain.time[-1].to(\n                time_discretization.unit\n            )", "            initial_time = self.__powertrain.time[-1]"),
    ('C11-range-from-zero', ['C11'], S, "for i in range(1, n_steps + 1):", "for i in range(0, n_steps):"),
    ('C11-last-step-dropped', ['C11'], S, "for i in range(1, n_steps + 1):", "for i in range(1, n_steps):"),
    ('C11-continuation-restarts-at-zero', ['C11'], S, "            k = initial_time.value + i*time_discretization.value", "            k = i*time_discretization.value"),
    ('C11-time-labelled-sec', ['C11'], S, "                Time(value=float(k), unit=time_discretization.unit)", "                Time(value=float(k), unit='sec')"),
    ('C11-floor-instead-of-round', ['C11'], S, "        n_steps = int(np.ceil(\n            np.round(simulation_time/time_discretization, decimals=9)\n        ))", "        n_steps = int(simulation_time/time_discretization)"),
]
P = 'gearpy/powertrain.py'
MUTANTS += [
    ('C12-reset-leaves-one-series', ['C12', 'C17'], P, "            for variable in element.time_variables.keys():\n                element.time_variables[variable] = []",
     "            for variable in element.time_variables.keys():\n                if variable != 'load torque':\n                    element.time_variables[variable] = []"),
    ('C12-continuation-reinitialises-position', ['C12'], S, "            initial_time = self.__powertrain.time[-1].to(\n                time_discretization.unit\n            )",
     "            initial_time = self.__powertrain.time[-1].to(\n                time_discretization.unit\n            )\n            self.__powertrain.elements[-1].angular_position = \\\n                self.__powertrain.elements[-1].time_variables['angular position'][0]"),
    ('C12-lock-flag-reset-every-run', ['C12'], S, "        self._compute_powertrain_inertia()\n        if self.__powertrain.time:", "        self._compute_powertrain_inertia()\n        self.__powertrain_is_locked = False\n        if self.__powertrain.time:"),
]
SC_ = 'gearpy/utils/stop_condition/stop_condition.py'
OP_ = 'gearpy/utils/stop_condition/operator.py'
MUTANTS += [
    ('C16-check-before-compute', ['C16'], S,
     "            self._time_integration(time_discretization=time_discretization)\n            self._compute_powertrain_variables(motor_control=motor_control)\n            if stop_condition is not None:\n                if stop_condition.check_condition():\n                    break",
     "            self._time_integration(time_discretization=time_discretization)\n            if stop_condition is not None:\n                if stop_condition.check_condition():\n                    self._compute_powertrain_variables(motor_control=motor_control)\n                    break\n            self._compute_powertrain_variables(motor_control=motor_control)"),
    ('C16-check-every-second-step', ['C16'], S, "            if stop_condition is not None:\n                if stop_condition.check_condition():", "            if stop_condition is not None and i % 2 == 0:\n                if stop_condition.check_condition():"),
    ('C16-stop-one-step-late', ['C16'], S,
     "            if stop_condition is not None:\n                if stop_condition.check_condition():\n                    break",
     "            if getattr(self, '_stop_pending', False):\n                self._stop_pending = False\n                break\n            if stop_condition is not None:\n                if stop_condition.check_condition():\n                    self._stop_pending = True"),
    ('C16-never-stops-in-continuation', ['C16'], S, "            if stop_condition is not None:\n                if stop_condition.check_condition():", "            if stop_condition is not None and initial_time.value == 0:\n                if stop_condition.check_condition():"),
    ('C16-ge-is-gt', ['C16'], OP_, "        return sensor_value >= threshold", "        return sensor_value > threshold"),
    ('C16-lt-le-swapped', ['C16'], OP_, "        return sensor_value < threshold", "        return sensor_value <= threshold"),
    ('C16-threshold-raw-value', ['C16', 'C07'], SC_, "        return self.operator(\n            sensor_value=self.sensor.get_value(),\n            threshold=self.threshold\n        )",
     "        value = self.sensor.get_value()\n        return self.operator(\n            sensor_value=value,\n            threshold=type(self.threshold)(self.threshold.value, value.unit)\n        )"),
]
PW = 'gearpy/motor_control/pwm_control.py'
MUTANTS += [
    ('C14-default-zero', ['C14'], PW, "        else:\n            pwm = 1\n", "        else:\n            pwm = 0\n"),
    ('C14-conflict-needs-three', ['C14'], PW, "        if applied_rules >= 2:", "        if applied_rules > 2:"),
    ('C14-saturate-to-0-1', ['C14'], PW, "        return min(max(pwm, -1), 1)", "        return min(max(pwm, 0), 1)"),
    ('C14-first-rule-wins-silently', ['C14'], PW, "        if applied_rules >= 2:\n            raise ValueError(\n                \"At least two rules are simultaneously applicable. Check PWM \"\n                \"rules conditions.\"\n            )\n        elif applied_rules == 1:", "        if applied_rules >= 1:"),
    ('C14-pwm-applied-after-driving-torque', ['C02'], S, "        self._compute_motor_control(motor_control=motor_control)\n        self._compute_driving_torque()", "        self._compute_driving_torque()\n        self._compute_motor_control(motor_control=motor_control)"),
    ('C14-truthiness-filter', ['C14'], PW, "            [pwm_value is not None for pwm_value in pwm_values]", "            [bool(pwm_value) for pwm_value in pwm_values]"),
]
RU = 'gearpy/motor_control/rules/utils.py'
MUTANTS += [
    ('C15-timer-half-open', ['C15'], 'gearpy/sensors/timer.py', "            ((current_time - self.start_time) <= self.duration)", "            ((current_time - self.start_time) < self.duration)"),
    ('C15-braking-without-static-error', ['C15'], 'gearpy/motor_control/rules/reach_angular_position.py', "            self.__braking_angle + regime_angular_position_error\n", "            self.__braking_angle\n"),
    ('C15-ramp-from-zero', ['C15'], 'gearpy/motor_control/rules/start_proportional_to_angular_position.py', "                self.__target_angular_position + pwm_min", "                self.__target_angular_position"),
    ('C15-limit-current-other-root', ['C15'], 'gearpy/motor_control/rules/start_limit_current.py', "                speed_ratio + electric_ratio + np.sqrt(", "                speed_ratio + electric_ratio - np.sqrt("),
    ('C15-start-target-strict', ['C15'], 'gearpy/motor_control/rules/start_limit_current.py', "        if angular_position <= self.__target_angular_position:", "        if angular_position < self.__target_angular_position*0.999:"),
    ('C15-revert-D12', ['C15'], RU, "        )*AngularPosition(braking_angle.value, braking_angle.unit)", "        )*braking_angle"),
    ('C15-revert-D13', ['C15'], RU, "isinstance(element, SpurGear | WormGear)", "isinstance(element, SpurGear)"),
    ('C15-limit-current-2i0-dropped', ['C15'], 'gearpy/motor_control/rules/start_limit_current.py', "                            2*no_load_electric_current", "                            no_load_electric_current"),
]
EX = 'gearpy/utils/export.py'
MUTANTS += [
    ('C18-revert-D7-pwm-column', ['C18'], P, "                if 'pwm' in variables:\n                    interpolation_function = interp1d(\n                        x=[instant.to('sec').value for instant in self.time],\n                        y=element.time_variables['pwm']\n                    )\n                    data.loc[element.name, 'pwm'] = interpolation_function(\n                        target_time.to('sec').value\n                    ).take(0)",
     "                if True:\n                    interpolation_function = interp1d(\n                        x=[instant.to('sec').value for instant in self.time],\n                        y=element.time_variables['pwm']\n                    )\n                    data.loc[element.name, 'pwm'] = interpolation_function(\n                        target_time.to('sec').value\n                    ).take(0)"),
    ('C18-revert-D8-nesting', ['C18'], P, "                if element.tangential_force_is_computable:\n                    if 'tangential force' in variables:\n                        variable_list.append('tangential force')\n                        unit_list.append(force_unit)\n                    if isinstance(element, GearBase):",
     "                if element.tangential_force_is_computable and 'tangential force' in variables:\n                    if 'tangential force' in variables:\n                        variable_list.append('tangential force')\n                        unit_list.append(force_unit)\n                    if isinstance(element, GearBase):"),
    ('C18-driving-torque-wrong-unit', ['C18'], P, "                    driving_torque_unit,\n                    load_torque_unit\n                ]\n            ):", "                    torque_unit,\n                    load_torque_unit\n                ]\n            ):"),
    ('C18-target-time-raw', ['C18'], P, "                    data.loc[element.name, f'{variable} ({unit})'] = \\\n                        interpolation_function(\n                        target_time.to('sec').value\n                    ).take(0)", "                    data.loc[element.name, f'{variable} ({unit})'] = \\\n                        interpolation_function(\n                        min(target_time.value, self.time[-1].to('sec').value)\n                    ).take(0)"),
    ('C18-export-load-in-torque-unit', ['C18'], EX, "        'load torque': load_torque_unit,", "        'load torque': torque_unit,"),
    ('C18-export-time-raw', ['C18'], EX, "        instant.to(time_unit).value for instant in time_array", "        instant.value for instant in time_array"),
]
MOB = 'gearpy/mechanical_objects/mechanical_object_base.py'
MUTANTS += [
    ('C17-revert-D6', ['C17'], 'gearpy/utils/relations.py', "    if worm_wheel.tangential_force_is_computable:\n        if worm_wheel.bending_stress_is_computable:", "    if False:\n        if worm_wheel.bending_stress_is_computable:"),
    ('C17-skip-load-torque-sample', ['C17'], MOB, "        self.__time_variables['load torque'].append(self.__load_torque)", "        if self.__load_torque is not None and self.__load_torque.value != 0:\n            self.__time_variables['load torque'].append(self.__load_torque)"),
    ('C17-pwm-appended-twice-on-dead-zone', ['C17'], M, "        self.time_variables['pwm'].append(self.pwm)", "        self.time_variables['pwm'].append(self.pwm)\n        if self.pwm == 0.5:\n            self.time_variables['pwm'].append(self.pwm)"),
    ('C17-contact-key-created-without-face-width', ['C17'], 'gearpy/mechanical_objects/spur_gear.py', "            if self.bending_stress_is_computable:\n                self.time_variables['bending stress'] = []", "            if self.elastic_modulus is not None:\n                self.time_variables['contact stress'] = []\n            if self.bending_stress_is_computable:\n                self.time_variables['bending stress'] = []"),
]
R = 'gearpy/utils/relations.py'
MUTANTS += [
    ('C10-efficiency-terms-exchanged', ['C10'], R, "            (master.pressure_angle.cos() -\n                friction_coefficient*master.helix_angle.tan()) / \\\n            (master.pressure_angle.cos() +\n                friction_coefficient/master.helix_angle.tan())",
     "            (master.pressure_angle.cos() -\n                friction_coefficient/master.helix_angle.tan()) / \\\n            (master.pressure_angle.cos() +\n                friction_coefficient*master.helix_angle.tan())"),
    ('C10-revert-D5-validate-after-mutate', ['C10'], R, "    if efficiency > 1 or efficiency < 0:\n        raise ValueError(\n            f\"The mating efficiency between {master.name!r} and \"\n            f\"{slave.name!r} is not within 0 and 1.\"\n        )\n\n    master.drives = slave",
     "    master.drives = slave"),
    ('C10-gear-validation-after-link', ['C10'], R, "    if master.module is not None and slave.module is not None:\n        if master.module != slave.module:", "    master.drives = slave\n    if master.module is not None and slave.module is not None:\n        if master.module != slave.module:"),
    ('C10-module-check-skipped', ['C10'], R, "        if master.module != slave.module:", "        if False and master.module != slave.module:"),
    ('C10-joint-ratio-left-none', ['C10', 'C01'], R, "    slave.driven_by = master\n    slave.master_gear_ratio = 1.0", "    slave.driven_by = master"),
    ('C10-worm-ratio-inverted-wheel-master', ['C10', 'C01'], R, "        gear_ratio = slave.n_starts/master.n_teeth", "        gear_ratio = master.n_teeth/slave.n_starts"),
    ('C20-walk-stops-one-early', ['C20'], P, "        while elements[-1].drives is not None:\n            elements.append(elements[-1].drives)", "        while elements[-1].drives is not None and elements[-1].drives.drives is not None:\n            elements.append(elements[-1].drives)\n        if len(elements) == 1:\n            elements.append(elements[-1].drives)"),
    ('C20-flag-first-worm-only', ['C20', 'C13'], P, "                if element.self_locking:\n                    self.__self_locking = True", "                self.__self_locking = bool(element.self_locking)\n                break"),
    ('C20-elements-returns-list', ['C20'], P, "        self.__elements = tuple(elements)", "        self.__elements = elements"),
    ('C20-duplicate-check-counts-motor-name-only', ['C20'], P, "            if count > 1:", "            if count > 1 and name == elements[0].name:"),
]
SG = 'gearpy/mechanical_objects/spur_gear.py'
HG = 'gearpy/mechanical_objects/helical_gear.py'
WW = 'gearpy/mechanical_objects/worm_wheel.py'
MUTANTS += [
    ('C09-lewis-table-row-edited', ['C09'], 'gearpy/mechanical_objects/gear_data/lewis_factor_table.csv', "43,0.394", "43,0.397"),
    ('C09-interpolation-without-clamping', ['C09'], MOB, "    fill_value=(\n        LEWIS_FACTOR_DATA.loc[LEWIS_FACTOR_DATA.index[0], 'Lewis Factor'],\n        LEWIS_FACTOR_DATA.loc[LEWIS_FACTOR_DATA.index[-1], 'Lewis Factor']\n    ),", "    fill_value='extrapolate',"),
    ('C09-radius-is-diameter', ['C09'], SG, "                abs(self.driving_torque)/(self.reference_diameter/2)", "                abs(self.driving_torque)/(self.reference_diameter)"),
    ('C09-master-slave-torque-swapped', ['C09'], HG, "        if self.mating_role == MatingMaster:\n            self.tangential_force = \\\n                abs(self.load_torque)/(self.reference_diameter/2)\n        elif self.mating_role == MatingSlave:\n            self.tangential_force = \\\n                abs(self.driving_torque)/(self.reference_diameter/2)",
     "        if self.mating_role == MatingMaster:\n            self.tangential_force = \\\n                abs(self.driving_torque)/(self.reference_diameter/2)\n        elif self.mating_role == MatingSlave:\n            self.tangential_force = \\\n                abs(self.load_torque)/(self.reference_diameter/2)"),
    ('C09-hertz-constant', ['C09'], SG, "            value=0.262922*sqrt(", "            value=0.262292*sqrt("),
    ('C09-helical-contact-cos-beta-dropped', ['C09'], HG, "            (self.face_width/self.__helix_angle.cos()*inverse_curvature_sum)", "            (self.face_width*inverse_curvature_sum)"),
    ('C09-flag-ignores-face-width', ['C09', 'C17'], MOB, "        return (self.__module is not None) and (self.__face_width is not None)\n", "        return (self.__module is not None)\n"),
    ('C09-mate-without-modulus-tolerated', ['C09'], SG, "            if self.driven_by.elastic_modulus is not None:\n                mate_elastic_modulus = self.driven_by.elastic_modulus\n            else:", "            mate_elastic_modulus = self.driven_by.elastic_modulus or self.elastic_modulus\n            if False:\n                pass\n            else:"),
    ('C09-worm-effective-width-factor', ['C09'], WW, "                self.face_width, 0.67*self.driven_by.reference_diameter", "                self.face_width, 0.76*self.driven_by.reference_diameter"),
]
MUTANTS += [
    ('C07-no-load-speed-raw-value', ['C07'], M, "            value=(1 - self.angular_speed/no_load_speed)*maximum_torque.value,", "            value=(1 - self.angular_speed.value/no_load_speed.value)*maximum_torque.value,"),
    ('C07-timer-compares-raw-values', ['C07'], 'gearpy/sensors/timer.py', "        return (current_time >= self.start_time) and \\", "        return (current_time.value >= self.start_time.value) and \\"),
    ('C07-helical-cos-of-raw-value', ['C07', 'C09'], HG, "                    value=atan(PRESSURE_ANGLE.tan()/helix_angle.cos()),", "                    value=atan(PRESSURE_ANGLE.tan()/__import__('math').cos(helix_angle.value*0.017453292519943295)),"),
    ('C07-revert-D4-pandas-key', ['C07'], MOB, "        if available_pressure_angle == pressure_angle:", "        if available_pressure_angle.value == pressure_angle.to('deg').value:"),
    ('C07-inertia-unit-assumed', ['C07', 'C03'], S, "            self.__powertrain_inertia_moment += element.inertia_moment", "            self.__powertrain_inertia_moment += type(element.inertia_moment)(element.inertia_moment.value, self.__powertrain_inertia_moment.unit)"),
]
MUTANTS += [
    ('C04-stale-torque-acceleration', ['C04', 'C03'], S, "        self.__powertrain.elements[-1].angular_acceleration = \\\n            self.__powertrain.elements[-1].torque / \\\n            self.__powertrain_inertia_moment",
     "        previous = self.__powertrain.elements[-1].time_variables['torque']\n        self.__powertrain.elements[-1].angular_acceleration = \\\n            (previous[-1] if previous else self.__powertrain.elements[-1].torque) / \\\n            self.__powertrain_inertia_moment"),
    ('C04-dt-doubled', ['C04', 'C03'], S, "            self.__powertrain.elements[-1].angular_acceleration * \\\n            time_discretization", "            self.__powertrain.elements[-1].angular_acceleration * \\\n            time_discretization*2"),
    ('C04-position-uses-old-speed', ['C04', 'C03'], S,
     "        self.__powertrain.elements[-1].angular_speed += \\\n            self.__powertrain.elements[-1].angular_acceleration * \\\n            time_discretization\n        self.__powertrain.elements[-1].angular_position += \\\n            self.__powertrain.elements[-1].angular_speed*time_discretization",
     "        old_speed = self.__powertrain.elements[-1].angular_speed\n        self.__powertrain.elements[-1].angular_speed += \\\n            self.__powertrain.elements[-1].angular_acceleration * \\\n            time_discretization\n        self.__powertrain.elements[-1].angular_position += \\\n            old_speed*time_discretization*1.5"),
]
MUTANTS += [
    ('C19-length-rmul-bypasses-constructor', ['C19'], U, "        return Length(value=self.__value*other, unit=self.__unit)\n\n    def __truediv__(self, other: Length | float | int) -> Length | float:",
     "        result = Length(value=self.__value, unit=self.__unit)\n        result._Length__value = self.__value*other\n        return result\n\n    def __truediv__(self, other: Length | float | int) -> Length | float:"),
    ('C19-neg-bypasses-constructor', ['C19'], UB, "    def __neg__(self):\n        return self.__class__(-self.value, self.unit)", "    def __neg__(self):\n        result = self.__class__(abs(self.value) or 1, self.unit)\n        result.to(self.unit, inplace=True)\n        for klass in type(result).__mro__:\n            name = '_' + klass.__name__ + '__value'\n            if name in result.__dict__:\n                result.__dict__[name] = -self.value\n        return result"),
    ('C19-motor-max-torque-check-weakened', ['C19'], M, "        if maximum_torque.value <= 0:", "        if maximum_torque.value < 0:"),
    ('C19-helical-bound-strict', ['C19'], HG, "        if helix_angle >= Angle(90, 'deg'):", "        if helix_angle > Angle(90, 'deg'):"),
    ('C19-timeinterval-zero-allowed', ['C19'], U, "        super().__init__(value=value, unit=unit)\n\n        if value <= 0:\n            raise ValueError(\"Parameter 'value' must be positive.\")\n\n        self.__value = value\n        self.__unit = unit\n\n    def __add__(self, other: Time | TimeInterval) -> Time | TimeInterval:",
     "        super().__init__(value=value, unit=unit)\n\n        if value < 0:\n            raise ValueError(\"Parameter 'value' must be positive.\")\n\n        self.__value = value\n        self.__unit = unit\n\n    def __add__(self, other: Time | TimeInterval) -> Time | TimeInterval:"),
    ('C19-pwm-setter-range', ['C19'], M, "        if (pwm > 1) or (pwm < -1):", "        if (pwm > 1.5) or (pwm < -1.5):"),
]
MUTANTS += [
    ('C08-current-before-driving-torque', ['C08'], S, "        self._compute_driving_torque()\n        self._compute_torque()", "        self._compute_electric_current()\n        self._compute_driving_torque()\n        self._compute_torque()"),
]
