"""Self-validation: apply a mutant (textual replacement) to a scratch copy of the tree and require the
quick check of its home property to report a VIOLATION.   python -m vf.selftest.run [name-prefix ...]
Scratch copies live under ${VERIF_SCRATCH:-/var/tmp} and are removed as soon as the mutant is judged."""
import os
import shutil
import subprocess
import sys
import tempfile
from concurrent.futures import ThreadPoolExecutor

from .mutants import MUTANTS
from .. import core

ROOT = core.ROOT


def run_one(m, tier='quick', shards=None):
    name, props, path, old, new = m[:5]
    base = os.environ.get('VERIF_SCRATCH', '/var/tmp')
    d = tempfile.mkdtemp(prefix='vf-mut-', dir=base)
    try:
        dst = os.path.join(d, 'tree')
        shutil.copytree(os.path.join(core.repo_path(), 'gearpy'), os.path.join(dst, 'gearpy'),
                        ignore=shutil.ignore_patterns('__pycache__'))
        fp = os.path.join(dst, path)
        s = open(fp).read()
        if s.count(old) < 1:
            return name, 'STALE (pattern not found)', ''
        s = s.replace(old, new, 1)
        open(fp, 'w').write(s)
        res = []
        for prop in props:
            env = dict(os.environ, VERIF_REPO=dst, VERIF_OUT=os.path.join(d, 'out'))
            cmd = [os.path.join(ROOT, 'check'), prop, '--tier', tier] + (['--shards', str(shards)] if shards else [])
            r = subprocess.run(cmd, env=env, capture_output=True, text=True)
            line = next((l for l in r.stdout.splitlines() if l.startswith('  monitor=')), '')
            res.append(f'{prop}:{"CAUGHT" if r.returncode == 1 else "MISSED rc=" + str(r.returncode)} {line[:150]}')
        return name, ' | '.join(res), ''
    finally:
        shutil.rmtree(d, ignore_errors=True)


def main():
    sel = sys.argv[1:]
    ms = [m for m in MUTANTS if not sel or any(m[0].startswith(s) for s in sel)]
    missed = 0
    for m in ms:
        name, res, _ = run_one(m, shards=int(os.environ.get('SELFTEST_SHARDS', '16')))
        print(f'{name:38s} {res}', flush=True)
        missed += 'MISSED' in res or 'STALE' in res
    print(f'{len(ms)} mutants, {missed} not caught')
    return 1 if missed else 0


if __name__ == '__main__':
    sys.exit(main())
