"""pytest plugin: the repository's OWN unit tests executed with C19's class invariants armed (icontract.invariant on the five
sign-constrained quantity classes). Loaded with `-p vf.pytest_contracts`; every process (xdist worker or the main one) writes
what its invariants observed to $VERIF_CONTRACT_LOG/<pid>.json at session end. Nothing is asserted here: the C19 check reads
the logs and judges them (an invalid live object is a violation unless it is the known finding D14)."""
import json
import os


def pytest_configure(config):
    from vf import deps
    deps.ensure()
    from vf.checks import c19
    c19.arm()


def pytest_sessionfinish(session, exitstatus):
    d = os.environ.get('VERIF_CONTRACT_LOG')
    if not d:
        return
    from vf.checks import c19
    os.makedirs(d, exist_ok=True)
    with open(os.path.join(d, f'{os.getpid()}.json'), 'w') as f:
        json.dump({'evals': c19.LOG['evals'], 'bad': c19.LOG['bad'][:200], 'n_bad': len(c19.LOG['bad'])}, f)
